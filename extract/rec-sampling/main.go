// rec-sampling records tools/extract/sampling (unmodified) for SamplingTrace.tla.
package main

import (
	"bufio"
	"encoding/json"
	"flag"
	"math"
	"math/rand"
	"os"

	"github.com/paulsonkoly/chess-3/tools/extract/sampling"
)

type Ev struct {
	Ev     string `json:"ev"`
	T      int    `json:"t"`
	Dims   *[]int `json:"dims,omitempty"`
	Vals   *[]int `json:"vals,omitempty"`
	Dim    int    `json:"dim"`
	Value  int    `json:"value"`
	V      int    `json:"v"`
	Size   int    `json:"size"`
	Counts *[]int `json:"counts,omitempty"`
	Keep5  *[]int `json:"keep5,omitempty"`
}

func main() {
	out := flag.String("out", "", "")
	seed := flag.Int64("seed", 1, "")
	n := flag.Int("n", 3000, "")
	flag.Parse()
	rng := rand.New(rand.NewSource(*seed))
	f, err := os.Create(*out)
	if err != nil {
		panic(err)
	}
	defer f.Close()
	w := bufio.NewWriter(f)
	defer w.Flush()
	enc := json.NewEncoder(w)
	t := 0
	emit := func(e Ev) {
		t++
		e.T = t
		if err := enc.Encode(e); err != nil {
			panic(err)
		}
	}
	type point []int
	for i := 0; i < *n; i++ {
		// combined: random dimensions (incl. 1) and values
		k := rng.Intn(5)
		dims := make([]int, k)
		vals := make([]int, k)
		var fs []sampling.Discretizer
		for j := range dims {
			dims[j] = 1 + rng.Intn(6)
			vals[j] = rng.Intn(dims[j])
			j := j
			fs = append(fs, sampling.NewFeature(dims[j], func(d any) int { return d.(point)[j] }))
		}
		c := sampling.NewCombined(fs...)
		emit(Ev{Ev: "combined", Dims: &dims, Vals: &vals, Dim: c.Dim(), Value: c.Value(point(vals))})
		// scale
		dim, size := 1+rng.Intn(40), 1+rng.Intn(40)
		v := rng.Intn(dim)
		s := sampling.NewScale(sampling.NewFeature(dim, func(d any) int { return d.(int) }), size)
		emit(Ev{Ev: "scale", V: v, Dim: dim, Size: size, Value: s.Value(v)})
		// uniform sampler over random counts (some bins empty)
		nb := 1 + rng.Intn(12)
		counts := make([]int, nb)
		cn := sampling.NewCounter(nb)
		some := false
		for b := range counts {
			if rng.Intn(4) != 0 {
				counts[b] = 1 + rng.Intn([]int{3, 50, 9000}[rng.Intn(3)])
				some = true
			}
			for x := 0; x < counts[b]; x++ {
				cn.Add(b)
			}
		}
		if some {
			sm := sampling.NewUniformSampler(cn)
			keep := make([]int, nb)
			for b := range keep {
				keep[b] = int(math.Round(sm.KeepProb(b) * 100000))
			}
			emit(Ev{Ev: "uniform", Counts: &counts, Keep5: &keep})
		}
	}
}
