package shim

// Stand-in for the gRPC side of tools/tuner/shim (server.go, client.go, convert.go need
// google.golang.org/grpc, which is not available offline). shim.go - the Job and Result types the
// server works with - is the repository's own file, copied next to this one.

import (
	"net"

	"github.com/paulsonkoly/chess-3/tools/tuner/tui"
)

type Server struct{}

func NewServer(fn string, jobQueue <-chan Job, resultQueue chan<- Result, tuiQueue chan<- tui.Update) *Server {
	return &Server{}
}
func (s *Server) Serve(lis net.Listener) {}
func (s *Server) Stop()                  {}
