package shim

// Stand-in for the gRPC client of tools/tuner/shim (client.go needs google.golang.org/grpc): the
// method set client/client.go uses, served from a "server side" file through the repository's own
// epd.Stream (what shim/server.go's StreamEPD does).

import (
	"io"
	"path"

	"github.com/paulsonkoly/chess-3/tools/tuner/epd"
)

// ClientHarness is what the stand-in talks to instead of a server.
type ClientHarness struct {
	ServerFile string // the data file as the server has it
	Downloads  int    // StreamEPD calls so far
	Jobs       []Job
	Results    []Result
}

type Client struct{ H *ClientHarness }

func NewClient(host string, port int) (Client, error) { return Client{H: &ClientHarness{}}, nil }
func (c *Client) Close()                              {}

func (c *Client) RequestEPDInfo() (EPDInfo, error) {
	chk, err := epd.Checksum(c.H.ServerFile)
	if err != nil {
		return EPDInfo{}, err
	}
	return EPDInfo{Filename: path.Base(c.H.ServerFile), Checksum: chk}, nil
}

type collect struct{ lines []string }

func (c *collect) Send(line string) error { c.lines = append(c.lines, line); return nil }

type Stream struct {
	lines []string
	ix    int
}

func (c *Client) StreamEPD() (Stream, error) {
	c.H.Downloads++
	col := &collect{}
	if err := epd.Stream(c.H.ServerFile, col); err != nil {
		return Stream{}, err
	}
	return Stream{lines: col.lines}, nil
}

func (s *Stream) Recv() (string, error) {
	if s.ix >= len(s.lines) {
		return "", io.EOF
	}
	s.ix++
	return s.lines[s.ix-1], nil
}

func (c *Client) RequestJob() (Job, error) {
	if len(c.H.Jobs) == 0 {
		select {}
	}
	j := c.H.Jobs[0]
	c.H.Jobs = c.H.Jobs[1:]
	return j, nil
}

func (c *Client) RegisterResult(r Result) error {
	c.H.Results = append(c.H.Results, r)
	return nil
}
