// Package tui: stand-in for tools/tuner/tui in the conformance harness. The real package draws
// with tcell, which is not available offline; the server only needs the update TYPES (same
// names and fields as the real ones) and the queue they travel on. The harness reads that queue:
// it is the server's own account of every scheduling step, in program order.
package tui

import (
	"context"
	"time"
)

const QueueDepth = 10

type Update interface {
	Log()
}

type JobUpdate struct {
	ChunkIx   int
	JobIx     int
	StartTime time.Time
	TTL       time.Duration
}

func (u JobUpdate) Log() {}

type ResultUpdate struct {
	ChunkIx int
	JobIx   int
}

func (u ResultUpdate) Log() {}

type EpochUpdate struct{ Epoch int }

func (u EpochUpdate) Log() {}

type BatchUpdate struct{ Start, End int }

func (u BatchUpdate) Log() {}

type BatchTimeUpdate struct{ Duration time.Duration }

func (u BatchTimeUpdate) Log() {}

type MSEUpdate struct{ MSE float64 }

func (u MSEUpdate) Log() {}

type LRUpdate struct{ LR float64 }

func (u LRUpdate) Log() {}

type KUpdate struct {
	K    float64
	Step float64
}

func (u KUpdate) Log() {}

type HostUpdate struct {
	Host string
	Port int
}

func (u HostUpdate) Log() {}

type MsgUpdate struct {
	Msg  string
	Args []any
}

func (u MsgUpdate) Log() {}

func Run(ctx context.Context, cancel context.CancelFunc, useTui bool, updates <-chan Update) {
	for range updates {
	}
}
