module github.com/google/uuid

go 1.21
