// Package uuid: stand-in for github.com/google/uuid (not available offline): New returns unique
// 16-byte identifiers, which is all the tuner server relies on.
package uuid

import (
	"crypto/rand"
	"encoding/hex"
)

type UUID [16]byte

func New() UUID {
	var u UUID
	if _, err := rand.Read(u[:]); err != nil {
		panic(err)
	}
	return u
}

func (u UUID) String() string { return hex.EncodeToString(u[:]) }
