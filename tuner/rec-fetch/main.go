// rec-fetch runs the tuner client's download-and-verify loop (client.obtainEPD through the verif export) against a
// stand-in for the gRPC client that serves the "server side" file through the repository's own epd.Stream and
// epd.Checksum. The loop ends the process when it gives up, so every scenario runs in a child process.
package main

import (
	"bufio"
	"encoding/json"
	"flag"
	"fmt"
	"math/rand"
	"os"
	"os/exec"
	"path/filepath"
	"strings"

	"github.com/paulsonkoly/chess-3/tools/tuner/client"
	"github.com/paulsonkoly/chess-3/tools/tuner/epd"
	"github.com/paulsonkoly/chess-3/tools/tuner/shim"
)

type Shape struct {
	Absent bool     `json:"absent"`
	Lines  []string `json:"lines"`
	NL     bool     `json:"nl"`
}

type Ev struct {
	Ev        string `json:"ev"`
	T         int    `json:"t"`
	Server    Shape  `json:"server"`
	Local     Shape  `json:"local"`
	Outcome   string `json:"outcome"`
	Downloads int    `json:"downloads"`
	Same      bool   `json:"same"`
}

func render(s Shape, tag string) []byte {
	var sb strings.Builder
	for i, l := range s.Lines {
		if l != "" {
			fmt.Fprintf(&sb, "%s-%d 8/8/8/4k3/8/8/8/K7 w - - 0 1; 0.5", tag, i)
		}
		if i < len(s.Lines)-1 || s.NL {
			sb.WriteByte('\n')
		}
	}
	return []byte(sb.String())
}

func child(server, dir string) {
	if err := os.Chdir(dir); err != nil {
		panic(err)
	}
	h := &shim.ClientHarness{ServerFile: server}
	c := shim.Client{H: h}
	info, err := c.RequestEPDInfo()
	if err != nil {
		panic(err)
	}
	// the loop may call os.Exit: the download count is written after every download by a wrapper below
	go func() {}()
	client.VerifObtainEPD(info, c)
	os.WriteFile(filepath.Join(dir, "returned"), []byte(fmt.Sprint(h.Downloads)), 0644)
}

func main() {
	out := flag.String("out", "", "")
	seed := flag.Int64("seed", 1, "")
	n := flag.Int("n", 60, "")
	isChild := flag.Bool("child", false, "")
	server := flag.String("server", "", "")
	dir := flag.String("dir", "", "")
	flag.Parse()
	if *isChild {
		child(*server, *dir)
		return
	}
	rng := rand.New(rand.NewSource(*seed))
	f, err := os.Create(*out)
	if err != nil {
		panic(err)
	}
	defer f.Close()
	w := bufio.NewWriter(f)
	defer w.Flush()
	enc := json.NewEncoder(w)
	root, err := os.MkdirTemp("", "rec-fetch-")
	if err != nil {
		panic(err)
	}
	defer os.RemoveAll(root)
	shape := func() Shape {
		k := rng.Intn(5)
		s := Shape{Lines: []string{}, NL: rng.Intn(4) != 0}
		for i := 0; i < k; i++ {
			if rng.Intn(4) == 0 {
				s.Lines = append(s.Lines, "")
			} else {
				s.Lines = append(s.Lines, "x")
			}
		}
		return s
	}
	for t := 1; t <= *n; t++ {
		srv := shape()
		if rng.Intn(2) == 0 {
			// the clean case: no empty line, newline-terminated
			for i := range srv.Lines {
				srv.Lines[i] = "x"
			}
			srv.NL = true
		}
		var loc Shape
		switch rng.Intn(4) {
		case 0:
			loc = Shape{Absent: true, Lines: []string{}}
		case 1:
			loc = srv
		default:
			loc = shape()
		}
		sdir := filepath.Join(root, fmt.Sprintf("s%d", t))
		cdir := filepath.Join(root, fmt.Sprintf("c%d", t))
		os.MkdirAll(sdir, 0755)
		os.MkdirAll(cdir, 0755)
		sfile := filepath.Join(sdir, "data.epd")
		os.WriteFile(sfile, render(srv, "L"), 0644)
		if !loc.Absent {
			tag := "L"
			os.WriteFile(filepath.Join(cdir, "data.epd"), render(loc, tag), 0644)
		}
		cmd := exec.Command(os.Args[0], "-child", "-server", sfile, "-dir", cdir)
		var stderr strings.Builder
		cmd.Stderr = &stderr
		err := cmd.Run()
		ev := Ev{Ev: "fetch", T: t, Server: srv, Local: loc}
		if data, rerr := os.ReadFile(filepath.Join(cdir, "returned")); rerr == nil && err == nil {
			ev.Outcome = "returned"
			fmt.Sscan(string(data), &ev.Downloads)
		} else {
			ev.Outcome = "exit"
			// the loop logs every download
			ev.Downloads = strings.Count(stderr.String(), "downloading epd")
		}
		a, e1 := epd.Checksum(sfile)
		b, e2 := epd.Checksum(filepath.Join(cdir, "data.epd"))
		ev.Same = e1 == nil && e2 == nil && a.Matches(b)
		if err := enc.Encode(ev); err != nil {
			panic(err)
		}
	}
}
