// rec-tuner records the tuner's data pipeline (C20) and parameter vector / float evaluation (C19) for
// validation against TunerTrace.tla. It is compiled inside a scratch copy of the tuner module (the real
// module's network dependencies are not needed by the packages used here: epd, tuning).
package main

import (
	"bufio"
	"encoding/json"
	"flag"
	"fmt"
	"hash/fnv"
	"io"
	"math"
	"math/rand"
	"os"
	"path/filepath"
	"reflect"
	"runtime/debug"
	"strconv"
	"strings"

	"github.com/paulsonkoly/chess-3/board"
	"github.com/paulsonkoly/chess-3/eval"
	"github.com/paulsonkoly/chess-3/tools/tuner/epd"
	"github.com/paulsonkoly/chess-3/tools/tuner/tuning"
)

type Probe struct {
	K     int `json:"k"`
	Set   int `json:"set"`
	Get   int `json:"get"`
	Tuned int `json:"tuned"`
}
type Group struct {
	Name string `json:"name"`
	Size int    `json:"size"`
}
type Ev struct {
	Ev      string    `json:"ev"`
	T       int       `json:"t"`
	Raw     *[]any    `json:"raw,omitempty"`
	N       int       `json:"n"`
	Epoch   string    `json:"epoch,omitempty"`
	S       int       `json:"s"`
	E       int       `json:"e"`
	Reads   *[][]any  `json:"reads,omitempty"`
	P       *[]int    `json:"p,omitempty"`
	Keep    bool      `json:"keep"`
	Digest  bool      `json:"digest"`
	From    int       `json:"from"`
	Ys      *[]int    `json:"ys,omitempty"`
	Fen     string    `json:"fen,omitempty"`
	Stm     int       `json:"stm"`
	F1000   int       `json:"f1000"`
	I       int       `json:"i"`
	Layout  *[]Group  `json:"layout,omitempty"`
	Targets *[]string `json:"targets,omitempty"`
	Len     int       `json:"len"`
	NTuned  int       `json:"ntuned"`
	Probes  *[]Probe  `json:"probes,omitempty"`
	Msg     string    `json:"msg,omitempty"`
	Engine  *bool     `json:"engine,omitempty"`
	Plan    *[][]int  `json:"plan,omitempty"`
}

// plan logs how tuning.Batches / tuning.Chunks cut n lines (pure functions of n; no file needed):
// one row per batch: s, e, then the chunk boundaries c0=s, c1, ..., ck=e as yielded
func (r *rec) plan(n int) {
	r.t++
	rows := [][]int{}
	for b := range tuning.Batches(n) {
		row := []int{b.Start, b.End}
		for c := range tuning.Chunks(b) {
			row = append(row, c.Start, c.End)
		}
		rows = append(rows, row)
		if len(rows) > 200 {
			break
		}
	}
	r.emit(&Ev{Ev: "plan", N: n, Plan: &rows})
}

type rec struct {
	enc *json.Encoder
	rng *rand.Rand
	t   int
	n   int
	dir string
}

func (r *rec) emit(e *Ev) {
	e.T = r.t
	if err := r.enc.Encode(e); err != nil {
		panic(err)
	}
	r.n++
}

func dig(b []byte) []any {
	h := fnv.New64a()
	h.Write(b)
	return []any{len(b), strconv.FormatUint(h.Sum64(), 16)}
}

// one data file: lines[i] == nil means a blank line
func (r *rec) fileTest(lines [][]byte, epochs []int, digest bool, subs int) {
	r.t++
	fn := filepath.Join(r.dir, fmt.Sprintf("data-%d.epd", r.t))
	f, err := os.Create(fn)
	if err != nil {
		panic(err)
	}
	w := bufio.NewWriterSize(f, 1<<20)
	raw := make([]any, len(lines))
	index := map[string]int{}
	k := 0
	for i, l := range lines {
		w.Write(l)
		w.WriteByte('\n')
		if len(l) == 0 {
			if digest {
				raw[i] = []any{0, ""}
			} else {
				raw[i] = ""
			}
			continue
		}
		if digest {
			raw[i] = dig(l)
		} else {
			raw[i] = string(l)
		}
		index[string(l)] = k
		k++
	}
	w.Flush()
	f.Close()
	defer os.Remove(fn)
	r.emit(&Ev{Ev: "file", Raw: &raw, Digest: digest})
	ch, err := epd.NewChunker(fn)
	if err != nil {
		panic(err)
	}
	n := ch.LineCount()
	r.emit(&Ev{Ev: "count", N: n})
	readAll := func(epoch, s, e int) *[][]any {
		c, err := ch.Open(epoch, s, e)
		if err != nil {
			panic(fmt.Sprintf("Open(%d,%d,%d) n=%d: %v", epoch, s, e, n, err))
		}
		defer c.Close()
		reads := [][]any{}
		for {
			line, err := c.Read()
			if err != nil {
				if err == io.EOF {
					break
				}
				panic(err)
			}
			ix, ok := index[string(line)]
			if !ok {
				ix = -1
			}
			if digest {
				d := dig(line)
				reads = append(reads, []any{ix, d})
			} else {
				reads = append(reads, []any{ix, string(line)})
			}
		}
		return &reads
	}
	readInterleaved := func(epoch int, rs []tuning.Range) []*[][]any {
		cs := make([]*epd.Chunk, len(rs))
		out := make([]*[][]any, len(rs))
		for i, rg := range rs {
			c, err := ch.Open(epoch, rg.Start, rg.End)
			if err != nil {
				panic(fmt.Sprintf("Open(%d,%d,%d) n=%d: %v", epoch, rg.Start, rg.End, n, err))
			}
			cs[i] = c
			out[i] = &[][]any{}
		}
		live := len(cs)
		for live > 0 {
			for i, c := range cs {
				if c == nil {
					continue
				}
				// a random small burst from this chunk, then the next one
				for k := 1 + r.rng.Intn(3); k > 0; k-- {
					line, err := c.Read()
					if err != nil {
						if err != io.EOF {
							panic(err)
						}
						c.Close()
						cs[i] = nil
						live--
						break
					}
					ix, ok := index[string(line)]
					if !ok {
						ix = -1
					}
					if digest {
						*out[i] = append(*out[i], []any{ix, dig(line)})
					} else {
						*out[i] = append(*out[i], []any{ix, string(line)})
					}
				}
			}
		}
		return out
	}
	for _, ep := range epochs {
		if n <= 20000 {
			p := make([]int, n)
			for i := range p {
				p[i] = int(epd.VerifShuffleIndex(uint64(i), uint64(n), uint64(ep)))
			}
			r.emit(&Ev{Ev: "perm", N: n, Epoch: strconv.Itoa(ep), P: &p, Keep: true})
		} else {
			p := []int{}
			r.emit(&Ev{Ev: "perm", N: 0, Epoch: strconv.Itoa(ep), P: &p, Keep: false})
		}
		r.emit(&Ev{Ev: "epoch", Epoch: strconv.Itoa(ep)})
		// exactly as server.go hands out work and client.go reads it
		for batch := range tuning.Batches(n) {
			r.emit(&Ev{Ev: "batch", S: batch.Start, E: batch.End})
			for chunk := range tuning.Chunks(batch) {
				r.emit(&Ev{Ev: "chunk", S: chunk.Start, E: chunk.End, Reads: readAll(ep, chunk.Start, chunk.End)})
			}
		}
		r.emit(&Ev{Ev: "eoe"})
		if ep == epochs[0] {
			// the same epoch as the tuner's concurrent workers read it: several chunks of one Chunker
			// open at the same time, their Reads alternating line by line
			r.emit(&Ev{Ev: "epoch", Epoch: strconv.Itoa(ep)})
			for batch := range tuning.Batches(n) {
				r.emit(&Ev{Ev: "batch", S: batch.Start, E: batch.End})
				var rs []tuning.Range
				for chunk := range tuning.Chunks(batch) {
					rs = append(rs, chunk)
				}
				for g := 0; g < len(rs); g += 4 {
					grp := rs[g:min(g+4, len(rs))]
					for i, reads := range readInterleaved(ep, grp) {
						r.emit(&Ev{Ev: "chunk", S: grp[i].Start, E: grp[i].End, Reads: reads})
					}
				}
			}
			r.emit(&Ev{Ev: "eoe"})
		}
		if n > 0 {
			// a window read part of the way, rewound and read again from its start (across read-buffer refills in
			// the big-line file): the second reading is the window, whole and in order
			s0 := r.rng.Intn(n)
			e0 := s0 + r.rng.Intn(n-s0+1)
			if r.rng.Intn(2) == 0 {
				s0, e0 = 0, n
			}
			c, err := ch.Open(ep, s0, e0)
			if err != nil {
				panic(err)
			}
			k0 := r.rng.Intn(e0 - s0 + 1)
			if digest {
				// the big-line file: the whole file as one window, read almost to its end (well past the first fill of
				// the read buffer) before the rewind
				s0, e0 = 0, n
				c.Close()
				if c, err = ch.Open(ep, s0, e0); err != nil {
					panic(err)
				}
				k0 = n - r.rng.Intn(min(n, 300))
			}
			for k := k0; k > 0; k-- {
				if _, err := c.Read(); err != nil {
					break
				}
			}
			if err := c.Rewind(); err != nil {
				panic(err)
			}
			reads := [][]any{}
			for {
				line, err := c.Read()
				if err != nil {
					if err == io.EOF {
						break
					}
					panic(err)
				}
				ix, ok := index[string(line)]
				if !ok {
					ix = -1
				}
				if digest {
					reads = append(reads, []any{ix, dig(line)})
				} else {
					reads = append(reads, []any{ix, string(line)})
				}
			}
			c.Close()
			r.emit(&Ev{Ev: "sub", Epoch: strconv.Itoa(ep), S: s0, E: e0, Reads: &reads})
		}
		for i := 0; i < subs && n > 0; i++ {
			s := r.rng.Intn(n)
			e := s + r.rng.Intn(n-s+1)
			if n > 5000 {
				e = min(n, s+r.rng.Intn(3000))
			}
			r.emit(&Ev{Ev: "sub", Epoch: strconv.Itoa(ep), S: s, E: e, Reads: readAll(ep, s, e)})
		}
	}
}

func (r *rec) mkLines(n int, blankEvery int, blanksAtEnd int, maxLen int) [][]byte {
	var lines [][]byte
	for i := 0; i < n; i++ {
		if blankEvery > 0 && i > 0 && r.rng.Intn(blankEvery) == 0 {
			lines = append(lines, nil)
			if r.rng.Intn(3) == 0 {
				lines = append(lines, nil)
			}
		}
		l := fmt.Sprintf("L%d;", i)
		extra := r.rng.Intn(maxLen)
		if extra > 0 {
			b := make([]byte, extra)
			for j := range b {
				b[j] = "abcdefghijklmnopqrstuvwxyz0123456789/ -KQkq"[r.rng.Intn(43)]
			}
			l += string(b)
		}
		lines = append(lines, []byte(l))
	}
	for i := 0; i < blanksAtEnd; i++ {
		lines = append(lines, nil)
	}
	return lines
}

func (r *rec) epochMode(tier string) {
	epochs := []int{0, 1, 7}
	// every small line count, with and without blank lines
	maxSmall := 40
	if tier == "thorough" {
		maxSmall = 200
	}
	for n := 1; n <= maxSmall; n++ {
		r.fileTest(r.mkLines(n, 0, 0, 60), []int{0, 1 + r.rng.Intn(1000)}, false, 2)
		r.fileTest(r.mkLines(n, 3, r.rng.Intn(3), 60), []int{r.rng.Intn(16), int(r.rng.Int63())}, false, 2)
	}
	for _, n := range []int{63, 64, 65, 127, 128, 129, 255, 256, 257, 511, 512, 513, 1000, 1023, 1024, 1025, 2047, 2048, 2049, 3000} {
		r.fileTest(r.mkLines(n, 7, 2, 200), []int{r.rng.Intn(16)}, false, 3)
	}
	// lines close to the 4 KiB line-reader buffer
	r.fileTest(r.mkLines(300, 5, 1, 4000), epochs[:2], false, 3)
	// several batches of 100,000 lines: remainder shorter than a chunk, exactly full, one line over
	sizes := []int{100003}
	if tier == "thorough" {
		sizes = []int{100001, 100003, 106249, 106250, 200000, 200017, 250000}
	} else if r.rng.Intn(2) == 0 {
		sizes = []int{[]int{100001, 106249, 200017}[r.rng.Intn(3)]}
	}
	for _, n := range sizes {
		r.fileTest(r.mkLines(n, 997, 1, 24), []int{r.rng.Intn(16)}, false, 2)
	}
	// how Batches / Chunks cut n lines, for many more n than files can be written for
	for n := 1; n <= 300; n++ {
		r.plan(n)
	}
	for k := 0; k <= 4; k++ {
		for _, d := range []int{0, 1, 2, 3, 7, 15, 16, 17, 31, 6249, 6250, 6251, 12500, 50000, 93749, 93750, 93751, 99984, 99985, 99999} {
			if k*100000+d > 0 {
				r.plan(k*100000 + d)
			}
		}
	}
	np := 300
	if tier == "thorough" {
		np = 5000
	}
	for i := 0; i < np; i++ {
		r.plan(1 + r.rng.Intn(2_000_000))
		r.plan(100000*(1+r.rng.Intn(12)) + r.rng.Intn(40))
	}
	// big lines so that the 32 MiB read buffer has to be refilled (digest mode: length + fnv instead of text)
	r.fileTest(r.mkLines(18500, 50, 1, 3900), []int{3}, true, 2) // ~36 MB: more than the 32 MiB read buffer
}

func (r *rec) permMode(tier string, shard, nshards int) {
	maxN := 3000
	if tier == "thorough" {
		maxN = 8000
	}
	k := 0
	for n := 1; n <= maxN; n++ {
		k++
		if k%nshards != shard {
			continue
		}
		eps := []uint64{uint64(n % 16), r.rng.Uint64()}
		if n <= 300 {
			for e := uint64(0); e < 16; e++ {
				eps = append(eps, e)
			}
		}
		for _, ep := range eps {
			p := make([]int, n)
			for i := range p {
				p[i] = int(epd.VerifShuffleIndex(uint64(i), uint64(n), ep))
			}
			r.t++
			r.emit(&Ev{Ev: "perm", N: n, Epoch: strconv.FormatUint(ep, 10), P: &p})
		}
	}
	// powers of two +-1 up to 2^24: windows
	for b := uint(12); b <= 24; b++ {
		for _, d := range []int{-1, 0, 1} {
			k++
			if k%nshards != shard {
				continue
			}
			n := (1 << b) + d
			ep := r.rng.Uint64()
			for w := 0; w < 3; w++ {
				from := r.rng.Intn(n)
				var ys []int
				for i := from; i < min(n, from+3000); i++ {
					ys = append(ys, int(epd.VerifShuffleIndex(uint64(i), uint64(n), ep)))
				}
				r.t++
				r.emit(&Ev{Ev: "permwin", N: n, Epoch: strconv.FormatUint(ep, 10), From: from, Ys: &ys})
			}
		}
	}
}

// ---------------------------------------------------------------- C19

// flatten: pointers to every float64 of the coefficient struct in struct order, and the group layout
func flatten(e *tuning.EngineRep) ([]*float64, []Group) {
	var ptrs []*float64
	var layout []Group
	v := reflect.ValueOf((*eval.CoeffSet[float64])(e)).Elem()
	t := v.Type()
	var walk func(x reflect.Value)
	walk = func(x reflect.Value) {
		switch x.Kind() {
		case reflect.Array:
			for i := 0; i < x.Len(); i++ {
				walk(x.Index(i))
			}
		case reflect.Float64:
			ptrs = append(ptrs, x.Addr().Interface().(*float64))
		default:
			panic("unexpected kind")
		}
	}
	for i := 0; i < t.NumField(); i++ {
		before := len(ptrs)
		walk(v.Field(i))
		layout = append(layout, Group{t.Field(i).Name, len(ptrs) - before})
	}
	return ptrs, layout
}

func (r *rec) vecMode(tier string) {
	base := tuning.EngineCoeffs()
	_, layout := flatten(&base)
	var names []string
	for _, g := range layout {
		names = append(names, g.Name)
	}
	var subsets [][]string
	for _, nm := range names {
		subsets = append(subsets, []string{nm})
	}
	for i := range names {
		for j := i + 1; j < len(names); j++ {
			if tier == "thorough" || r.rng.Intn(4) == 0 {
				subsets = append(subsets, []string{names[j], names[i]}) // order of the target list must not matter
			}
		}
	}
	nr := 40
	if tier == "thorough" {
		nr = 200
	}
	for i := 0; i < nr; i++ {
		var s []string
		for _, nm := range names {
			if r.rng.Intn(2) == 0 {
				s = append(s, nm)
			}
		}
		if len(s) > 0 {
			subsets = append(subsets, s)
		}
	}
	subsets = append(subsets, append([]string{}, tuning.DefaultTargets...), names)
	// second pass: the caller builds every choice in one reused buffer (in-place edits of the slice
	// that was passed before): the mapping is a function of the slice's CONTENT at the time of the call
	var buf []string
	for pass := 0; pass < 2; pass++ {
	for _, fresh := range subsets {
		targets := fresh
		if pass == 1 {
			buf = append(buf[:0], fresh...)
			targets = buf
		}
		r.t++
		e := tuning.EngineCoeffs()
		vec := e.ToVector(targets)
		n := len(vec.VectorToSlice())
		ntuned := 0
		for range e.TunedParams(targets) {
			ntuned++
		}
		ks := map[int]bool{0: true, n - 1: true}
		for len(ks) < min(n, 24) {
			ks[r.rng.Intn(n)] = true
		}
		probes := []Probe{}
		for k := range ks {
			if k < 0 || k >= n {
				continue
			}
			pr := Probe{K: k, Set: -1, Get: -1, Tuned: -1}
			// SetVector: mark element k, see which coefficient of the full struct changes
			e1 := tuning.EngineCoeffs()
			data := append([]float64{}, e1.ToVector(targets).VectorToSlice()...)
			marker := 1e6 + float64(k)
			data[k] = marker
			e1.SetVector(tuning.VectorFromSlice(data), targets)
			p1, _ := flatten(&e1)
			p0, _ := flatten(&base)
			changed := 0
			for i := range p1 {
				if *p1[i] != *p0[i] {
					changed++
					pr.Set = i
				}
			}
			if changed != 1 {
				pr.Set = -2 - changed
			}
			// ToVector reads it back at index ...
			for i, x := range e1.ToVector(targets).VectorToSlice() {
				if x == marker {
					pr.Get = i
				}
			}
			// TunedParams: the pointer yielded with index k
			e2 := tuning.EngineCoeffs()
			for i, ptr := range e2.TunedParams(targets) {
				if i == k {
					*ptr = marker
				}
			}
			p2, _ := flatten(&e2)
			changed = 0
			for i := range p2 {
				if *p2[i] != *p0[i] {
					changed++
					pr.Tuned = i
				}
			}
			if changed != 1 {
				pr.Tuned = -2 - changed
			}
			probes = append(probes, pr)
		}
		tg := append([]string{}, targets...)
		r.emit(&Ev{Ev: "vec", Layout: &layout, Targets: &tg, Len: n, NTuned: ntuned, Probes: &probes})
	}
	}
}

func (r *rec) evalMode(fensPath string, max int) {
	f, err := os.Open(fensPath)
	if err != nil {
		panic(err)
	}
	defer f.Close()
	e := tuning.EngineCoeffs()
	sc := bufio.NewScanner(f)
	for sc.Scan() && r.n < max {
		fen := strings.TrimSpace(sc.Text())
		if fen == "" {
			continue
		}
		var b board.Board
		// loaded without hash, as the tuner does
		if err := board.ParseFEN(&b, []byte(fen)); err != nil {
			panic("fen rejected: " + fen)
		}
		fl := e.Eval(&b)
		in := int(eval.Eval(&b, &eval.Coefficients))
		r.t++
		r.emit(&Ev{Ev: "evalpair", Fen: fen, Stm: int(b.STM), F1000: int(math.Round(fl * 1000)), I: in})
	}
}

func main() {
	mode := flag.String("mode", "epoch", "epoch|perm|vec|eval")
	tier := flag.String("tier", "quick", "")
	seed := flag.Int64("seed", 1, "")
	shard := flag.Int("shard", 0, "")
	nshards := flag.Int("nshards", 1, "")
	fens := flag.String("fens", "", "")
	n := flag.Int("n", 1000, "")
	dir := flag.String("dir", os.TempDir(), "scratch directory for data files")
	out := flag.String("out", "", "")
	flag.Parse()
	f, err := os.Create(*out)
	if err != nil {
		panic(err)
	}
	w := bufio.NewWriterSize(f, 1<<20)
	r := &rec{enc: json.NewEncoder(w), rng: rand.New(rand.NewSource(*seed)), dir: *dir}
	defer func() {
		if x := recover(); x != nil {
			st := string(debug.Stack())
			eng := panicInEngine(st)
			r.emit(&Ev{Ev: "panic", Msg: fmt.Sprint(x), Engine: &eng})
			fmt.Fprintln(os.Stderr, "panic recorded:", x, st)
		}
		w.Flush()
		f.Close()
	}()
	switch *mode {
	case "epoch":
		r.epochMode(*tier)
	case "perm":
		r.permMode(*tier, *shard, *nshards)
	case "vec":
		r.vecMode(*tier)
	case "eval":
		r.evalMode(*fens, *n)
	}
	fmt.Fprintln(os.Stderr, "events", r.n)
}

// panicInEngine: is the innermost non-runtime frame of the panic inside the tuner's packages (and not in this recorder)?
func panicInEngine(st string) bool {
	seenPanic := false
	for _, l := range strings.Split(st, "\n") {
		l = strings.TrimSpace(l)
		if strings.HasPrefix(l, "panic(") {
			seenPanic = true
			continue
		}
		if !seenPanic || !strings.HasPrefix(l, "/") {
			continue
		}
		if strings.Contains(l, "/runtime/") || strings.Contains(l, "/src/") && strings.Contains(l, "go1.") {
			continue
		}
		return !strings.Contains(l, "/verifcmd/")
	}
	return false
}
