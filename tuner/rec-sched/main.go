// rec-sched runs the tuner SERVER's scheduling loop (server.epdProcess, unmodified, through the
// verif export) against mock workers that are slow, drop jobs, answer twice, answer late (in a
// later batch) or answer with unknown ids, and records the server's own account of every step -
// the update stream it sends to its UI - for validation against TunerSchedTrace.tla.
//
// Only the server's stream is ordered (one goroutine, program order). What the workers saw (the
// content of each job) is attached afterwards by job id: immutable facts, no ordering is guessed.
package main

import (
	"bufio"
	"context"
	"encoding/json"
	"flag"
	"fmt"
	"math/rand"
	"os"
	"path/filepath"
	"sync"
	"sync/atomic"
	"time"

	"github.com/google/uuid"
	"github.com/paulsonkoly/chess-3/tools/tuner/server"
	"github.com/paulsonkoly/chess-3/tools/tuner/shim"
	"github.com/paulsonkoly/chess-3/tools/tuner/tui"
	"github.com/paulsonkoly/chess-3/tools/tuner/tuning"
)

type Content struct {
	Epoch int `json:"epoch"`
	S     int `json:"s"`
	E     int `json:"e"`
	NCoef int `json:"ncoef"`
}

type Ev struct {
	Ev    string   `json:"ev"`
	T     int      `json:"t"`
	N     int      `json:"n"`
	Epoch int      `json:"epoch"`
	S     int      `json:"s"`
	E     int      `json:"e"`
	Chunk int      `json:"chunk"`
	JobIx int      `json:"jobix"`
	Start int64    `json:"start"` // microseconds since the recorder started
	TTL   int64    `json:"ttl"`   // microseconds
	Jid   int      `json:"jid"`   // jobs numbered in the order the server queued them; -1 = id the server never issued
	Job   *Content `json:"job,omitempty"`
	Msg   string   `json:"msg,omitempty"`
}

var fens = []string{
	"rnbqkbnr/pppppppp/8/8/8/8/PPPPPPPP/RNBQKBNR w KQkq - 0 1",
	"r1bqkbnr/pppp1ppp/2n5/4p3/4P3/5N2/PPPP1PPP/RNBQKB1R w KQkq - 2 3",
	"8/5k2/8/8/3K4/8/4P3/8 w - - 0 1",
	"r3k2r/p1ppqpb1/bn2pnp1/3PN3/1p2P3/2N2Q1p/PPPBBPPP/R3K2R w KQkq - 0 1",
	"8/2p5/3p4/KP5r/1R3p1k/8/4P1P1/8 w - - 0 1",
	"4k3/8/8/8/8/8/4R3/4K3 b - - 0 1",
}

func main() {
	out := flag.String("out", "", "")
	seed := flag.Int64("seed", 1, "")
	lines := flag.Int("lines", 118750, "lines of the data file (100000 per batch, 6250 per chunk)")
	batches := flag.Int("batches", 3, "stop after this many completed batches")
	nworkers := flag.Int("workers", 5, "")
	profile := flag.String("profile", "mixed", "mixed|calm|hostile")
	flag.Parse()
	rng := rand.New(rand.NewSource(*seed))
	dir, err := os.MkdirTemp("", "rec-sched-")
	if err != nil {
		panic(err)
	}
	defer os.RemoveAll(dir)
	fn := filepath.Join(dir, "data.epd")
	{
		f, err := os.Create(fn)
		if err != nil {
			panic(err)
		}
		w := bufio.NewWriterSize(f, 1<<20)
		for i := 0; i < *lines; i++ {
			fmt.Fprintf(w, "%s; %s\n", fens[i%len(fens)], []string{"1.0", "0.5", "0.0"}[i%3])
		}
		w.Flush()
		f.Close()
	}
	t0 := time.Now()
	ctx, cancel := context.WithCancel(context.Background())
	jobQ := make(chan shim.Job, server.JobQueueDepth)
	resQ := make(chan shim.Result, server.ResultQueueDepth)
	tuiQ := make(chan tui.Update) // unbuffered: the reader is in step with the server
	var evs []Ev
	var mu sync.Mutex
	jids := map[uuid.UUID]int{}
	short := sync.Map{} // uuid -> job has a short (measured) ttl: a lost answer is re-issued quickly
	taken := sync.Map{} // uuid -> Content, as a worker received it
	var batchNo atomic.Int64
	done := make(chan struct{})
	go func() {
		server.VerifEpdProcess(ctx, fn, filepath.Join(dir, "coeffs.go"), 2.832, jobQ, resQ, tuiQ)
		close(done)
	}()
	// workers
	var wg sync.WaitGroup
	for w := 0; w < *nworkers; w++ {
		wrng := rand.New(rand.NewSource(*seed*1000 + int64(w)))
		wg.Add(1)
		go func() {
			defer wg.Done()
			send := func(r shim.Result) {
				select {
				case resQ <- r:
				case <-done:
				}
			}
			for {
				var job shim.Job
				select {
				case job = <-jobQ:
				case <-done:
					return
				}
				taken.Store(job.UUID, Content{job.Epoch, job.Range.Start, job.Range.End, len(job.Coefficients.VectorToSlice())})
				res := shim.Result{UUID: job.UUID, Gradients: tuning.NullVector(tuning.DefaultTargets)}
				_, quick := short.Load(job.UUID)
				kind := 0
				if quick && *profile != "calm" {
					kind = wrng.Intn(10)
					if *profile == "hostile" {
						kind = 3 + wrng.Intn(7)
					}
				}
				switch kind {
				case 4: // slow
					time.Sleep(time.Duration(5+wrng.Intn(40)) * time.Millisecond)
					send(res)
				case 5: // the answer is lost
				case 6: // answers twice
					send(res)
					send(res)
				case 7: // answers when a later batch is running
					b := batchNo.Load()
					go func() {
						for i := 0; i < 400 && batchNo.Load() == b; i++ {
							time.Sleep(time.Millisecond)
						}
						send(res)
					}()
				case 8: // an id the server never issued, then the real answer
					send(shim.Result{UUID: uuid.New(), Gradients: tuning.NullVector(tuning.DefaultTargets)})
					send(res)
				case 9: // slow AND twice
					time.Sleep(time.Duration(wrng.Intn(15)) * time.Millisecond)
					send(res)
					time.Sleep(time.Duration(wrng.Intn(15)) * time.Millisecond)
					send(res)
				default:
					time.Sleep(time.Duration(wrng.Intn(1500)) * time.Microsecond)
					send(res)
				}
			}
		}()
	}
	// the reader of the server's update stream
	emit := func(e Ev) {
		mu.Lock()
		evs = append(evs, e)
		mu.Unlock()
	}
	emit(Ev{Ev: "count", N: *lines})
	// dump writes the trace so far (job contents attached by id). Called when the run is cancelled - the
	// server may exit the process if the cancellation catches it reading the file between epochs - and at the end.
	dump := func() {
		mu.Lock()
		defer mu.Unlock()
		byID := map[string]uuid.UUID{}
		for id := range jids {
			byID[id.String()] = id
		}
		f, err := os.Create(*out)
		if err != nil {
			panic(err)
		}
		defer f.Close()
		w := bufio.NewWriter(f)
		defer w.Flush()
		enc := json.NewEncoder(w)
		for i := range evs {
			e := evs[i]
			e.T = 1
			if e.Ev == "queue" {
				if c, ok := taken.Load(byID[e.Msg]); ok {
					cc := c.(Content)
					e.Job = &cc
				}
				e.Msg = ""
			}
			if err := enc.Encode(e); err != nil {
				panic(err)
			}
		}
	}
	completed := 0
	var lastJob *tui.JobUpdate
	us := func(t time.Time) int64 { return t.Sub(t0).Microseconds() }
	_ = rng
	stalled := false
loop:
	for {
		select {
		case <-done:
			break loop
		case <-time.After(60 * time.Second):
			// the server has neither reported a step nor ended for a minute: it is wedged (every scenario
			// here keeps at least one worker answering); record that and stop
			emit(Ev{Ev: "stall"})
			stalled = true
			break loop
		case u := <-tuiQ:
			switch v := u.(type) {
			case tui.EpochUpdate:
				emit(Ev{Ev: "epoch", Epoch: v.Epoch})
			case tui.BatchUpdate:
				batchNo.Add(1)
				emit(Ev{Ev: "batch", S: v.Start, E: v.End})
				if completed >= *batches {
					// stop INSIDE a batch: between epochs the server is reading the whole file and would exit(1)
					dump()
					cancel()
				}
			case tui.JobUpdate:
				lastJob = &v
				emit(Ev{Ev: "job", Chunk: v.ChunkIx, JobIx: v.JobIx, Start: us(v.StartTime), TTL: v.TTL.Microseconds()})
			case tui.ResultUpdate:
				emit(Ev{Ev: "result", Chunk: v.ChunkIx, JobIx: v.JobIx})
			case tui.BatchTimeUpdate:
				emit(Ev{Ev: "batchtime"})
				completed++
			case tui.MSEUpdate:
				emit(Ev{Ev: "mse"})
			case tui.LRUpdate:
				emit(Ev{Ev: "lr"})
			case tui.MsgUpdate:
				if len(v.Args) == 2 {
					if id, ok := v.Args[1].(uuid.UUID); ok {
						switch v.Msg {
						case "queueing job":
							jid := len(jids)
							jids[id] = jid
							if lastJob != nil && lastJob.TTL < time.Second {
								short.Store(id, true)
							}
							emit(Ev{Ev: "queue", Jid: jid, Msg: id.String()})
						case "received results":
							jid, ok := jids[id]
							if !ok {
								jid = -1
							}
							emit(Ev{Ev: "recv", Jid: jid})
						}
					}
				}
			}
		}
	}
	if !stalled {
		wg.Wait()
	}
	dump()
}
