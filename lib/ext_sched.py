"""Extension (beyond the listed properties): the tuner's distributed job scheduling.

TunerSched.tla is model checked (safety for every interleaving of server, clock and workers that are slow,
die, or answer twice; deadlock freedom while fewer workers vanish than the result queue holds; completion
under fairness; necessity of the re-issue), and TunerSchedTrace.tla validates the update stream of the real
server loop (server.epdProcess, compiled unmodified against stand-ins for gRPC / tcell / uuid) driven by mock
workers. Mismatches are rules S/...: reported as EXT-MISMATCH, exit 1; they are not violations of C01-C20.
"""
import json
import os
import sys
import time

import tracecheck as tc
import vf

SAFE_CFG = """SPECIFICATION Spec
CONSTANTS NChunks = %d NBatches = %d Workers <- W3 JQ = %d RQ = %d MaxJobs = 2 MaxDeaths = %d MaxRetries = %d Reissue = TRUE
 w1 = w1 w2 = w2 w3 = w3
SYMMETRY Symm
INVARIANTS TypeOK AtMostOnce ExactlyOnceWhenApplied TrackerAgrees InOrder
PROPERTIES NoLateAddition
%s
"""
LIVE_CFG = """SPECIFICATION FairSpec
CONSTANTS NChunks = 2 NBatches = 1 Workers <- W2 JQ = 1 RQ = 2 MaxJobs = 2 MaxDeaths = 1 MaxRetries = 0 Reissue = %s
 w1 = w1 w2 = w2 w3 = w3
INVARIANTS TypeOK AtMostOnce
PROPERTIES Completes
"""


def model(work, tier):
    out = {}
    # safety with retried answers (deadlock is possible there: checked separately)
    r = vf.tlc(work, "TunerSchedMC", SAFE_CFG % (2, 2, 1, 1, 2, 1, "CHECK_DEADLOCK FALSE"), timeout=3000, workers=vf.NCPU, heap="6g")
    vf.tlc_must_pass(r, "TunerSched safety")
    out["safety"] = dict(constants="2 chunks x 2 batches, 3 workers (symmetric), queues 1/1, 2 deaths, 1 retried answer", distinct=r.distinct, generated=r.generated)
    # no deadlock while fewer workers vanish than the result queue holds
    r = vf.tlc(work, "TunerSchedMC", SAFE_CFG % (2, 2, 1, 2, 1, 0, ""), timeout=3000, workers=vf.NCPU, heap="6g")
    vf.tlc_must_pass(r, "TunerSched deadlock freedom")
    out["deadlock_free"] = dict(constants="queues 1/2, 1 death (< result queue depth)", distinct=r.distinct, generated=r.generated)
    if tier == "thorough":
        r = vf.tlc(work, "TunerSchedMC", SAFE_CFG % (2, 2, 2, 3, 2, 0, ""), timeout=3000, workers=vf.NCPU, heap="8g")
        vf.tlc_must_pass(r, "TunerSched deadlock freedom (2/3/2)")
        out["deadlock_free_2"] = dict(constants="queues 2/3, 2 deaths", distinct=r.distinct, generated=r.generated)
    # ... and the wedge when as many vanish right after delivering as the result queue holds (a design observation)
    r = vf.tlc(work, "TunerSchedMC", SAFE_CFG % (2, 2, 1, 2, 2, 0, ""), timeout=3000, workers=vf.NCPU, heap="6g")
    if "Deadlock reached" not in r.out:
        raise vf.Infra("expected TLC to find the documented wedge (deaths = result queue depth):\n" + r.out[-1500:])
    out["wedge_when_deaths_reach_queue_depth"] = True
    # completion under fairness; and not without the re-issue
    r = vf.tlc(work, "TunerSchedMC", LIVE_CFG % "TRUE", timeout=3000, workers=vf.NCPU, heap="4g")
    vf.tlc_must_pass(r, "TunerSched liveness")
    out["liveness"] = dict(distinct=r.distinct)
    r = vf.tlc(work, "TunerSchedMC", LIVE_CFG % "FALSE", timeout=3000, workers=vf.NCPU, heap="4g")
    if "was violated" not in r.out or "Completes" not in r.out:
        raise vf.Infra("expected the completion property to fail without the re-issue:\n" + r.out[-1500:])
    out["reissue_is_necessary"] = True
    return out


def run(tier):
    t0 = time.time()
    with vf.scratch("verif-ext-sched-") as work:
        vf.stage_specs(work)
        bins = vf.build_tuner_harness(work, work, ["rec-sched"], with_server=True)
        mdl = model(work, tier) if not os.environ.get("EXT_SKIP_MODEL") else {"skipped": True}
        nruns = 12 if tier == "quick" else 64
        profiles = ["mixed", "hostile", "calm", "mixed"]

        def job(i):
            args = ["-seed", str(vf.seed() * 7919 + i), "-profile", profiles[i % 4], "-workers", str([5, 2, 9, 1][i % 4 if i % 8 < 4 else 0]),
                    "-batches", str(3 if tier == "quick" else 5), "-lines", str([118750, 100001, 106251, 225000][i % 4])]

            def record(path, args=args):
                # the recorder's data file lives under the scratch directory (the server may exit the process)
                env = dict(os.environ, TMPDIR=work)
                p = vf.run([bins["rec-sched"]] + args + ["-out", path], timeout=1200, check=False, env=env)
                # the server exits the process when the cancellation reaches it while it reads the file between epochs;
                # the trace up to the cancellation was written before
                if p.returncode != 0 and not ("context canceled" in p.stderr and os.path.exists(path) and os.path.getsize(path) > 0):
                    raise vf.Infra("rec-sched failed (%d): %s" % (p.returncode, p.stderr[-1500:]))
            return dict(name="sched-%d" % i, record=record, args=args)
        res = tc.run_shards(work, "TunerSchedTrace", [job(i) for i in range(nruns)], timeout=1500)
        bad = [m for m in res.mm if m["rule"].startswith("S/")]
        os.makedirs(os.path.join(vf.VERIF, "extensions"), exist_ok=True)
        rep = dict(extension="tuner-scheduling", tier=tier, spec=["TunerSched.tla", "TunerSchedMC.tla", "TunerSchedTrace.tla"],
                   model=mdl, traces=len(res.files), events=res.events, event_kinds=res.counts, mismatches=len(bad),
                   first_mismatches=[{k: v for k, v in m.items() if k != "file"} for m in bad[:5]],
                   wall_s=round(time.time() - t0, 1))
        with open(os.path.join(vf.VERIF, "extensions", "sched.json"), "w") as f:
            json.dump(rep, f, indent=1, default=str)
        for m in bad[:5]:
            print("EXT-MISMATCH extension=tuner-scheduling rule=%s args=%s" % (m["rule"], " ".join(m.get("args", []))))
        return 1 if bad else 0
