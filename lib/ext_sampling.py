"""Extension: tools/extract/sampling (binning and thinning of training positions). Sampling.tla is evaluated by
TLC for all small instances; SamplingTrace.tla judges recorded calls of the real package. Rules E/...."""
import json
import os
import time

import tracecheck as tc
import vf


def run(tier):
    t0 = time.time()
    with vf.scratch("verif-ext-sampling-") as work:
        vf.stage_specs(work)
        bins = vf.build_extract_harness(work, work, ["rec-sampling"])
        # constant evaluation of the lemmas
        open(os.path.join(work, "SamplingMC.tla"), "w").write(
            "---- MODULE SamplingMC ----\nEXTENDS Sampling, TLC\nVARIABLE x\nInit == x = 0\nNext == UNCHANGED x\nLemma == Check\n====\n")
        r = vf.tlc(work, "SamplingMC", "INIT Init\nNEXT Next\nINVARIANT Lemma\nCHECK_DEADLOCK FALSE\n", timeout=1200, heap="2g")
        vf.tlc_must_pass(r, "Sampling.tla lemmas")
        nsh = 4

        def job(i):
            args = ["-seed", str(vf.seed() * 389 + i), "-n", str(3000 if tier == "quick" else 30000)]

            def record(path, args=args):
                vf.run([bins["rec-sampling"]] + args + ["-out", path], timeout=600)
            return dict(name="sampling-%d" % i, record=record, args=args)
        res = tc.run_shards(work, "SamplingTrace", [job(i) for i in range(nsh)], timeout=1500)
        if [m for m in res.mm if m["rule"].startswith("INFRA/")]:
            raise vf.Infra("harness contract broken")
        bad = [m for m in res.mm if m["rule"].startswith("E/")]
        os.makedirs(os.path.join(vf.VERIF, "extensions"), exist_ok=True)
        rep = dict(extension="extract-sampling", tier=tier, spec=["Sampling.tla", "SamplingTrace.tla"],
                   lemmas="CombinedBijective for all dimension vectors of length <= 3 over 1..4; ScaleOK for all dim, size <= 12",
                   events=res.events, event_kinds=res.counts, mismatches=len(bad),
                   first_mismatches=[{k: v for k, v in m.items() if k != "file"} for m in bad[:5]], wall_s=round(time.time() - t0, 1))
        with open(os.path.join(vf.VERIF, "extensions", "sampling.json"), "w") as f:
            json.dump(rep, f, indent=1, default=str)
        for m in bad[:5]:
            print("EXT-MISMATCH extension=extract-sampling rule=%s args=%s" % (m["rule"], " ".join(m.get("args", []))))
        return 1 if bad else 0
