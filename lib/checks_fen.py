"""C11: FEN parsing/printing (Fen.tla, FenGen.tla, FenTrace.tla, GameTrace.tla round trip)."""
import json
import os
import shutil
import time

import tracecheck as tc
import vf

CORPUS = os.path.join(vf.VERIF, "corpus", "roots.fen")
GEN_CFG = "INIT Init\nNEXT Next\nCHECK_DEADLOCK FALSE\n"


def c11(prop, tier, replay):
    t0 = time.time()
    quick = tier == "quick"
    with vf.scratch("verif-C11-") as work:
        vf.stage_specs(work)
        bins = vf.build_harness(work, ["rec-board", "rec-fen"])
        if replay:
            rp = json.load(open(replay))
            if rp.get("kind") == "fen-rejected":
                cf = os.path.join(work, "one.fen")
                with open(cf, "w") as f:
                    f.write(rp["fen"] + "\n")
                path = os.path.join(work, "replay.ndjson")
                vf.run_recorder([bins["rec-board"], "-mode", "list", "-obs", "fen,canon", "-corpus", cf, "-out", path], timeout=600)
                _, mm, _ = tc.validate_trace(work, "GameTrace", path)
                if [m for m in mm if m["rule"].startswith(("C11/", "PANIC/"))]:
                    print("VIOLATION property=C11 replay=%s" % replay)
                    return 1
                return 0
            inp = os.path.join(work, "in.jsonl")
            with open(inp, "w") as f:
                f.write(json.dumps(rp["input"]) + "\n")
            bases = os.path.join(work, "bases.fen")
            with open(bases, "w") as f:
                f.write("\n" * (rp["input"]["base"] - 1) + rp["base_fen"] + "\n")
            path = os.path.join(work, "replay.ndjson")
            marker = os.path.join(work, "marker")
            p = vf.run([bins["rec-fen"], "-in", inp, "-bases", bases, "-out", path, "-marker", marker, "-ucievery", "1"], timeout=600, check=False)
            if p.returncode != 0:
                print("VIOLATION property=C11 replay=%s" % replay)
                return 1
            _, mm, _ = tc.validate_trace(work, "FenTrace", path)
            if [m for m in mm if m["rule"].startswith("C11/")]:
                print("VIOLATION property=C11 replay=%s" % replay)
                return 1
            return 0
        nbase = 96 if quick else 900
        fens = os.path.join(work, "bases.fen")
        vf.run([bins["rec-board"], "-mode", "fens", "-n", str(nbase), "-seed", str(vf.seed()), "-corpus", CORPUS, "-out", fens], timeout=900)
        roots = os.path.join(work, "bases.ndjson")
        vf.run([bins["rec-board"], "-mode", "list", "-obs", "fen,canon", "-corpus", fens, "-out", roots], timeout=900)
        base_fens = [l.strip() for l in open(fens) if l.strip()]
        # a generated valid position the engine refuses to load cannot serve as a base: it is judged by GameTrace
        # (C11/valid-fen-rejected) and the bases are listed again without it
        rej = [e for e in vf.read_ndjson(roots) if e.get("ev") == "fenRejected"]
        rejected_file = None
        if rej:
            rejected_file = os.path.join(work, "bases-rejected.ndjson")
            with open(rejected_file, "w") as f:
                for e in rej:
                    f.write(json.dumps(e) + "\n")
            bad = {e["fen"] for e in rej}
            base_fens = [x for x in base_fens if x not in bad]
            with open(fens, "w") as f:
                f.write("\n".join(base_fens) + "\n")
            vf.run([bins["rec-board"], "-mode", "list", "-obs", "fen,canon", "-corpus", fens, "-out", roots], timeout=900)
        # 1. round trip on positions (GameTrace: C11/fen-parse on load, C11/fen-print on every event)
        jobs = []
        plan = [("positions", "fen,canon", 6, 5000 if quick else 50000), ("play", "fen", 4, 4000 if quick else 40000)]
        k = 0
        for (mode, obs, nsh, nev) in plan:
            for i in range(nsh):
                k += 1
                args = ["-mode", mode, "-obs", obs, "-n", str(nev), "-seed", str(vf.seed() * 613 + k)]

                def record(path, args=args):
                    vf.run_recorder([bins["rec-board"]] + args + ["-corpus", CORPUS, "-out", path], timeout=900)
                jobs.append(dict(name="C11-%s-%d" % (mode, i), record=record, args=args))
        if rejected_file:
            jobs.append(dict(name="C11-bases-rejected", record=lambda path: shutil.copy(rejected_file, path), args=["bases"]))
        # 2. TLC generates the inputs, the replayer probes them, TLC judges the observations
        nsh = vf.NCPU
        synevery = 8 if quick else 5
        probes_total = [0]
        crashes = []

        def gen_and_probe(sh):
            r = vf.tlc(work, "FenGen", GEN_CFG, env_extra=dict(ROOTS=roots, SHARD=sh, NSHARDS=nsh, SYNEVERY=synevery), timeout=3000, heap="2g")
            vf.tlc_must_pass(r, "FenGen")
            inp = os.path.join(work, "fen-in-%d.jsonl" % sh)
            n = 0
            with open(inp, "w") as f:
                for s in r.printed:
                    if s.startswith(("S ", "C ")):
                        d = json.loads(s[2:])
                        d["kind"] = s[0]
                        f.write(json.dumps(d) + "\n")
                        n += 1
            return sh, inp, n, r

        gens = vf.pmap(gen_and_probe, range(nsh))

        def mkjob(sh, inp):
            def record(path, sh=sh, inp=inp):
                marker = os.path.join(work, "marker-%d" % sh)
                p = vf.run([bins["rec-fen"], "-in", inp, "-bases", fens, "-out", path, "-marker", marker, "-ucievery", "6"], timeout=3000, check=False)
                if p.returncode != 0:
                    # the process died: a panic outside recover (driver goroutine) - find the input being probed
                    idx = open(marker).read().strip() if os.path.exists(marker) else "?"
                    crashes.append(dict(shard=sh, marker=idx, stderr=p.stderr[-2500:], inp=inp))
                    open(path, "w").close()
            return dict(name="C11-probe-%d" % sh, record=record, args=["probe", str(sh)])
        gen_states = sum(g[3].distinct for g in gens)
        gen_trans = sum(g[3].generated for g in gens)
        ninputs = sum(g[2] for g in gens)
        res_rt = tc.run_shards(work, "GameTrace", jobs, timeout=3000)
        probe_jobs = [mkjob(sh, inp) for (sh, inp, n, r) in gens if n > 0]
        res_pr = tc.run_shards(work, "FenTrace", probe_jobs, timeout=3000) if not crashes else None
        if res_pr is None or crashes:
            res_pr = res_pr or tc.ShardResult()
        infra = [m for m in res_rt.mm + res_pr.mm if m["rule"].startswith("INFRA/")]
        if infra:
            raise vf.Infra("generator contract broken: %s" % json.dumps(infra[:2])[:1500])
        mine = [m for m in res_rt.mm + res_pr.mm if m["rule"].startswith(("C11/", "PANIC/"))]
        known, new = vf.classify(prop, mine)
        paths, seen = [], {}
        cache = {}
        for c in crashes:
            paths.append(vf.write_replay(prop, "process-died-%d" % c["shard"], {"property": prop, "kind": "fen-probe-crash", "marker": c["marker"], "stderr": c["stderr"],
                                                                               "rejected": {"rule": "C11/driver-or-parser-crashed-the-process"}}))
        for m in new:
            seen[m["rule"]] = seen.get(m["rule"], 0) + 1
            if seen[m["rule"]] > 2 or len(paths) >= 6:
                continue
            if m["rule"] in ("C11/fen-parse", "C11/fen-print"):
                script = tc.script_of(m["file"], m["l"])
                paths.append(vf.write_replay(prop, "%s-%d" % (m["rule"].split("/")[1], len(paths)), {"property": prop, "kind": "board-script", "obs": "fen,canon", "script": script,
                                                                                                    "rejected": {kk: v for kk, v in m.items() if kk not in ("file", "args")}}))
                continue
            evs = cache.setdefault(m["file"], vf.read_ndjson(m["file"]))
            ev = evs[m["l"] - 1]
            if ev.get("ev") == "fenRejected":
                paths.append(vf.write_replay(prop, "%s-%d" % (m["rule"].split("/")[1][:40], len(paths)),
                                             {"property": prop, "kind": "fen-rejected", "fen": ev["fen"], "rejected": {kk: v for kk, v in m.items() if kk not in ("file", "args")}}))
                continue
            text = ev["s"] if ev.get("s") else None
            entry = {"kind": "C" if ev["canon"] else "S", "base": ev["t"], "s": text if text is not None else "", "pos": ev.get("want")}
            paths.append(vf.write_replay(prop, "%s-%d" % (m["rule"].split("/")[1][:40], len(paths)),
                                         {"property": prop, "kind": "fen-probe", "input": entry, "hex": ev.get("hex"), "base_fen": base_fens[ev["t"] - 1],
                                          "rejected": {kk: v for kk, v in m.items() if kk not in ("file", "args")}}))
        distinct = set()
        nprobe = 0
        accepted = 0
        for fpath in res_pr.files:
            if not os.path.exists(fpath):
                continue
            for e in vf.read_ndjson(fpath):
                nprobe += 1
                distinct.add(e.get("s") or e.get("hex"))
                accepted += 1 if e["acc"] else 0
        cov = {
            "evaluations": nprobe + res_rt.events, "distinct_nontrivial": len(distinct),
            "rule": "TLC (FenGen.tla) enumerates for %d base positions all semantic edits (canonical texts + the position they denote) and, for every %d-th base, ALL single syntactic edits over the FEN alphabet plus field duplication/drop/swap/over-long counters; '@' is expanded to all 256 bytes; each input is parsed by ParseFEN and FromFEN under recover, printed if accepted, and every 6th goes through `position fen` on a real driver; distinct = different input strings" % (len(base_fens), synevery),
            "states": gen_states + res_rt.states + res_pr.states, "transitions": gen_trans + res_rt.transitions + res_pr.transitions,
            "inputs_generated_by_tlc": ninputs, "probes": nprobe, "probes_accepted_by_parser": accepted,
            "round_trip_events": res_rt.events, "round_trip_positions": res_rt.traces,
            "samples": [tc.trim(s, 400) for s in (res_pr.samples[:1] + res_rt.samples[:1])],
        }
        vf.write_evidence(prop, tier, "exploration", cov, time.time() - t0, len(new) + len(crashes),
                          ["TLC + Fen.tla/Chess.tla (two independent FEN printers cross-checked on every base)", "byte-level fuzzing is NOT claimed: inputs are single edits of canonical texts"])
        return vf.report(prop, known, paths)
