"""Common machinery for the chess-3 TLA+ model-based verification framework.

Every check is `bin/check <ID> [--tier quick|thorough] [--replay file]`.
Exit codes: 0 = property held on everything explored (KNOWN-FINDING lines allowed),
            1 = violation (a `VIOLATION property=<id> replay=<path>` line was printed),
            2 = infrastructure failure (never a verdict about the code).
"""
import concurrent.futures as cf
import contextlib
import json
import os
import re
import shutil
import subprocess
import sys
import tempfile
import time

VERIF = os.path.dirname(os.path.dirname(os.path.abspath(__file__)))
REPO = os.environ.get("VERIF_REPO", "/repo")
SPEC = os.path.join(VERIF, "spec")
HARNESS = os.path.join(VERIF, "harness")
EVID = os.path.join(VERIF, "evidence")
REPLAY = os.path.join(EVID, "replay")
JARS = "/opt/veriftools/tla/tla2tools.jar:/opt/veriftools/tla/CommunityModules-deps.jar"
NCPU = int(os.environ.get("VERIF_JOBS", str(min(16, os.cpu_count() or 4))))


class Infra(Exception):
    """Infrastructure failure: exit 2, never a VIOLATION."""


class EnginePanic(Exception):
    """The recorder process died from a Go panic raised inside chess-3 code (not inside the harness)."""


def panic_in_engine(stderr):
    """Innermost non-runtime frame of the first goroutine trace: is it outside /verif (i.e. in the engine)?"""
    if "panic:" not in stderr and "fatal error:" not in stderr:
        return False
    seen = False
    for line in stderr.splitlines():
        t = line.strip()
        if t.startswith("panic(") or t.startswith("goroutine "):
            seen = True
            continue
        if seen and t.startswith("/") and ".go:" in t:
            if "/runtime/" in t or "/toolchain@" in t or "/go/src/" in t:
                continue
            return "/verif/" not in t and "rec-tuner" not in t
    return False


def run_recorder(cmd, timeout=900, cwd=None):
    """Run a trace recorder; a death by engine panic is an observation (EnginePanic), anything else is Infra."""
    p = subprocess.run(cmd, cwd=cwd, timeout=timeout, stdout=subprocess.PIPE, stderr=subprocess.PIPE, text=True)
    if p.returncode != 0:
        if panic_in_engine(p.stderr):
            raise EnginePanic(p.stderr[-3000:])
        raise Infra("command failed (%d): %s\n%s\n%s" % (p.returncode, " ".join(map(str, cmd)), p.stdout[-2000:], p.stderr[-3000:]))
    return p


def log(*a):
    print(*a, file=sys.stderr, flush=True)


def seed():
    try:
        return int(os.environ.get("VERIF_SEED", "1"))
    except ValueError:
        return 1


def goenv():
    e = dict(os.environ)
    e["GOFLAGS"] = "-mod=mod"
    e["GOPROXY"] = "off"
    e.pop("GOSUMDB", None)
    e.setdefault("GOTOOLCHAIN", "auto")
    return e


@contextlib.contextmanager
def scratch(prefix="verif-"):
    base = "/dev/shm" if os.path.isdir("/dev/shm") and os.access("/dev/shm", os.W_OK) else None
    d = tempfile.mkdtemp(prefix=prefix, dir=base)
    try:
        yield d
    finally:
        shutil.rmtree(d, ignore_errors=True)


def run(cmd, cwd=None, env=None, timeout=None, check=True, input=None):
    p = subprocess.run(cmd, cwd=cwd, env=env, timeout=timeout, input=input,
                       stdout=subprocess.PIPE, stderr=subprocess.PIPE, text=True)
    if check and p.returncode != 0:
        raise Infra("command failed (%d): %s\n%s\n%s" % (p.returncode, " ".join(map(str, cmd)), p.stdout[-3000:], p.stderr[-3000:]))
    return p


def build_harness(outdir, cmds, tags="verif", race=False):
    """Build harness commands against /repo's CURRENT working tree (replace directive)."""
    sumsrc = os.path.join(REPO, "go.sum")
    sumdst = os.path.join(HARNESS, "go.sum")
    try:
        if not os.path.exists(sumdst) or open(sumsrc).read() != open(sumdst).read():
            shutil.copy(sumsrc, sumdst)
    except OSError as e:
        raise Infra("cannot copy go.sum: %s" % e)
    bins = {}
    modfile = []
    if REPO != "/repo":
        # development only (VERIF_REPO): build against another checkout of chess-3 through an alternative go.mod
        alt = os.path.join(outdir, "alt.mod")
        with open(os.path.join(HARNESS, "go.mod")) as f:
            txt = f.read().replace("=> /repo", "=> " + REPO)
        with open(alt, "w") as f:
            f.write(txt)
        shutil.copy(sumsrc, os.path.join(outdir, "alt.sum"))
        modfile = ["-modfile=" + alt]
    for c in cmds:
        out = os.path.join(outdir, c + ("-race" if race else ""))
        cmd = ["go", "build"] + modfile + ["-tags", tags, "-o", out]
        if race:
            cmd.append("-race")
        cmd.append("./cmd/" + c)
        p = run(cmd, cwd=HARNESS, env=goenv(), timeout=900, check=False)
        if p.returncode != 0:
            # a tree that does not compile is not something we can give a verdict on
            raise Infra("go build failed for %s:\n%s" % (c, p.stderr[-4000:]))
        bins[c] = out
    return bins


TUNER_PKGS = ["epd", "tuning", "checksum"]


def build_tuner_harness(outdir, scratchdir, cmds, with_server=False):
    """The tuner is a separate module with un-fetchable deps; copy the stdlib-only packages
    into a scratch module of the same name and build our commands inside it.
    with_server: also the server package (unmodified) and app, against stand-ins for the packages that
    need gRPC / tcell / google-uuid (tuner/stubs: tui update types, shim.NewServer, uuid.New)."""
    mod = os.path.join(scratchdir, "tunermod-srv" if with_server else "tunermod")
    os.makedirs(mod)
    with open(os.path.join(mod, "go.mod"), "w") as f:
        f.write("module github.com/paulsonkoly/chess-3/tools/tuner\n\ngo 1.25.4\n\n"
                "require github.com/paulsonkoly/chess-3 v0.0.0\n\n"
                "replace github.com/paulsonkoly/chess-3 => %s\n" % REPO)
        if with_server:
            f.write("\nrequire github.com/google/uuid v0.0.0\n\nreplace github.com/google/uuid => ./stubs/uuid\n")
    shutil.copy(os.path.join(REPO, "go.sum"), os.path.join(mod, "go.sum"))
    for p in TUNER_PKGS:
        shutil.copytree(os.path.join(REPO, "tools", "tuner", p), os.path.join(mod, p),
                        ignore=shutil.ignore_patterns("*_test.go"))
    if with_server:
        for p in ("server", "app"):
            shutil.copytree(os.path.join(REPO, "tools", "tuner", p), os.path.join(mod, p),
                            ignore=shutil.ignore_patterns("*_test.go"))
        os.makedirs(os.path.join(mod, "shim"))
        shutil.copy(os.path.join(REPO, "tools", "tuner", "shim", "shim.go"), os.path.join(mod, "shim", "shim.go"))
        shutil.copy(os.path.join(VERIF, "tuner", "stubs", "shim", "stub_server.go"), os.path.join(mod, "shim", "stub_server.go"))
        shutil.copy(os.path.join(VERIF, "tuner", "stubs", "shim", "stub_client.go"), os.path.join(mod, "shim", "stub_client.go"))
        shutil.copytree(os.path.join(REPO, "tools", "tuner", "client"), os.path.join(mod, "client"), ignore=shutil.ignore_patterns("*_test.go"))
        shutil.copytree(os.path.join(VERIF, "tuner", "stubs", "tui"), os.path.join(mod, "tui"))
        shutil.copytree(os.path.join(VERIF, "tuner", "stubs", "uuid"), os.path.join(mod, "stubs", "uuid"))
    bins = {}
    for c in cmds:
        shutil.copytree(os.path.join(VERIF, "tuner", c), os.path.join(mod, "verifcmd", c))
        out = os.path.join(outdir, c)
        p = run(["go", "build", "-tags", "verif", "-o", out, "./verifcmd/" + c], cwd=mod, env=goenv(), timeout=900, check=False)
        if p.returncode != 0:
            raise Infra("go build failed for tuner cmd %s:\n%s" % (c, p.stderr[-4000:]))
        bins[c] = out
    return bins


def build_datagen_harness(outdir, scratchdir, cmds):
    """tools/datagen is a separate module with un-fetchable deps (gRPC, sqlite): the client package (the game
    loop) is copied unmodified into a scratch module of the same name, next to the repository's own
    shim/config.go and shim/game.go and a stand-in for the gRPC client (datagen/stubs/shim)."""
    mod = os.path.join(scratchdir, "datagenmod")
    os.makedirs(mod)
    with open(os.path.join(mod, "go.mod"), "w") as f:
        f.write("module github.com/paulsonkoly/chess-3/tools/datagen\n\ngo 1.25.4\n\n"
                "require github.com/paulsonkoly/chess-3 v0.0.0\n\n"
                "replace github.com/paulsonkoly/chess-3 => %s\n" % REPO)
    shutil.copy(os.path.join(REPO, "go.sum"), os.path.join(mod, "go.sum"))
    shutil.copytree(os.path.join(REPO, "tools", "datagen", "client"), os.path.join(mod, "client"), ignore=shutil.ignore_patterns("*_test.go"))
    os.makedirs(os.path.join(mod, "shim"))
    for fn in ("config.go", "game.go"):
        shutil.copy(os.path.join(REPO, "tools", "datagen", "shim", fn), os.path.join(mod, "shim", fn))
    shutil.copy(os.path.join(VERIF, "datagen", "stubs", "shim", "client.go"), os.path.join(mod, "shim", "client.go"))
    os.makedirs(os.path.join(mod, "verifgen"))
    shutil.copy(os.path.join(VERIF, "harness", "internal", "gen", "gen.go"), os.path.join(mod, "verifgen", "gen.go"))
    bins = {}
    for c in cmds:
        shutil.copytree(os.path.join(VERIF, "datagen", c), os.path.join(mod, "verifcmd", c))
        out = os.path.join(outdir, c)
        p = run(["go", "build", "-tags", "verif", "-o", out, "./verifcmd/" + c], cwd=mod, env=goenv(), timeout=900, check=False)
        if p.returncode != 0:
            raise Infra("go build failed for datagen cmd %s:\n%s" % (c, p.stderr[-4000:]))
        bins[c] = out
    return bins


def build_extract_harness(outdir, scratchdir, cmds):
    """tools/extract needs sqlite (cgo, not available): only its pure sampling package is compiled, unmodified."""
    mod = os.path.join(scratchdir, "extractmod")
    os.makedirs(mod)
    with open(os.path.join(mod, "go.mod"), "w") as f:
        f.write("module github.com/paulsonkoly/chess-3/tools/extract\n\ngo 1.25.4\n")
    shutil.copytree(os.path.join(REPO, "tools", "extract", "sampling"), os.path.join(mod, "sampling"), ignore=shutil.ignore_patterns("*_test.go"))
    bins = {}
    for c in cmds:
        shutil.copytree(os.path.join(VERIF, "extract", c), os.path.join(mod, "verifcmd", c))
        out = os.path.join(outdir, c)
        p = run(["go", "build", "-o", out, "./verifcmd/" + c], cwd=mod, env=goenv(), timeout=900, check=False)
        if p.returncode != 0:
            raise Infra("go build failed for extract cmd %s:\n%s" % (c, p.stderr[-4000:]))
        bins[c] = out
    return bins


# ---------------------------------------------------------------- TLC

def java_cmd(heap="1g", young="256m", extra_props=()):
    return ["java", "-XX:+UseSerialGC", "-Xms" + heap, "-Xmx" + heap, "-Xmn" + young, "-Xss64m",
            *extra_props, "-cp", JARS, "tlc2.TLC"]


class TlcResult:
    def __init__(self, rc, out, wall):
        self.rc = rc
        self.out = out
        self.wall = wall
        self.generated = 0
        self.distinct = 0
        self.depth = 0
        m = re.findall(r"(\d[\d,]*) states generated, (\d[\d,]*) distinct states found", out)
        if m:
            self.generated = int(m[-1][0].replace(",", ""))
            self.distinct = int(m[-1][1].replace(",", ""))
        m = re.search(r"The depth of the complete state graph search is (\d+)", out)
        if m:
            self.depth = int(m.group(1))
        self.finished = "Model checking completed" in out or "Finished in" in out
        self.no_error = "No error has been found" in out
        self.printed = []
        for line in out.splitlines():
            line = line.strip()
            if line.startswith('"') and line.endswith('"') and len(line) > 1:
                # PrintT of a string: TLC prints it quoted with escapes
                try:
                    self.printed.append(json.loads(line))
                except ValueError:
                    self.printed.append(line[1:-1])

    def json_lines(self, prefix):
        res = []
        for s in self.printed:
            if s.startswith(prefix):
                try:
                    res.append(json.loads(s[len(prefix):]))
                except ValueError:
                    raise Infra("unparsable TLC output line: %r" % s[:300])
        return res


def tlc(workdir, module, cfg_text, env_extra=None, timeout=600, workers=1, args=(), heap="1g", deque=False,
        simulate=None):
    """Run one TLC process in workdir (which must already hold the .tla files)."""
    cfg = os.path.join(workdir, module + "_" + str(os.getpid()) + "_" + str(time.time_ns()) + ".cfg")
    with open(cfg, "w") as f:
        f.write(cfg_text)
    meta = tempfile.mkdtemp(prefix="meta-", dir=workdir)
    props = []
    if deque:
        props.append("-Dtlc2.tool.queue.IStateQueue=StateDeque")
    cmd = java_cmd(heap=heap, young="256m" if heap.endswith("g") else "64m", extra_props=props) + \
        ["-noGenerateSpecTE", "-metadir", meta, "-workers", str(workers), "-config", cfg]
    if simulate:
        cmd += ["-simulate", simulate]
    cmd += list(args) + [module]
    env = dict(os.environ)
    env.pop("JAVA_TOOL_OPTIONS", None)
    if env_extra:
        env.update({k: str(v) for k, v in env_extra.items()})
    t0 = time.time()
    try:
        p = subprocess.run(cmd, cwd=workdir, env=env, timeout=timeout, stdout=subprocess.PIPE, stderr=subprocess.STDOUT, text=True)
    except subprocess.TimeoutExpired:
        raise Infra("TLC timeout after %ds: %s" % (timeout, module))
    finally:
        shutil.rmtree(meta, ignore_errors=True)
    return TlcResult(p.returncode, p.stdout, time.time() - t0)


def stage_specs(workdir, extra_files=()):
    for f in os.listdir(SPEC):
        if f.endswith(".tla"):
            shutil.copy(os.path.join(SPEC, f), workdir)
    for f in extra_files:
        shutil.copy(f, workdir)


def pmap(fn, items, jobs=None):
    jobs = jobs or NCPU
    with cf.ThreadPoolExecutor(max_workers=jobs) as ex:
        return list(ex.map(fn, items))


def tlc_must_pass(res, what):
    """A design-level TLC run (model only) must complete without error; otherwise infrastructure/spec problem."""
    if not (res.finished and res.no_error):
        raise Infra("%s: TLC did not complete cleanly:\n%s" % (what, res.out[-4000:]))


# ---------------------------------------------------------------- known findings

def known_findings():
    p = os.path.join(VERIF, "known_findings.json")
    if not os.path.exists(p):
        return []
    return json.load(open(p))


def classify(prop, mismatches):
    """Split mismatches into (known, new). A mismatch is a dict with at least 'rule' and optional 'class'."""
    kf = [k for k in known_findings() if k.get("property") == prop and k.get("status") == "known"]
    known, new = [], []
    for m in mismatches:
        hit = None
        for k in kf:
            if m.get("class") and m.get("class") == k.get("match"):
                hit = k
                break
        if hit:
            known.append((hit, m))
        else:
            new.append(m)
    return known, new


# ---------------------------------------------------------------- evidence + verdict

def write_evidence(prop, tier, level, coverage, wall, violations, assumptions):
    global EVID, REPLAY
    if os.environ.get("VERIF_REPO"):
        # development only: a run against another checkout (a seeded change in a scratch worktree) must not
        # overwrite the evidence of /repo
        EVID = os.path.join("/tmp", "verif-alt-evidence")
    os.makedirs(EVID, exist_ok=True)
    ev = {
        "property_id": prop, "tier": tier, "seed": seed(), "level": level,
        "coverage": coverage, "assumptions": assumptions, "wall_s": round(wall, 2), "violations": violations,
    }
    tmp = os.path.join(EVID, prop + ".json.tmp")
    with open(tmp, "w") as f:
        json.dump(ev, f, indent=1, sort_keys=True)
        f.write("\n")
    os.replace(tmp, os.path.join(EVID, prop + ".json"))


def write_replay(prop, name, obj):
    os.makedirs(REPLAY, exist_ok=True)
    path = os.path.join(REPLAY, "%s-%s.json" % (prop, name))
    with open(path, "w") as f:
        json.dump(obj, f, indent=1)
        f.write("\n")
    return path


def report(prop, known, new_paths):
    """Print KNOWN-FINDING / VIOLATION lines and return the exit code."""
    seen = set()
    for k, m in known:
        if k["id"] in seen:
            continue
        seen.add(k["id"])
        print("KNOWN-FINDING: property=%s %s (%s)" % (prop, k["what"], k["id"]))
    for p in new_paths:
        print("VIOLATION property=%s replay=%s" % (prop, p))
    sys.stdout.flush()
    return 1 if new_paths else 0


def read_ndjson(path):
    res = []
    with open(path) as f:
        for line in f:
            line = line.strip()
            if line:
                res.append(json.loads(line))
    return res
