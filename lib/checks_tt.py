"""C15: transposition table (TT.tla, TTMC.tla, TTTrace.tla)."""
import json
import os
import time

import tracecheck as tc
import vf

CFG_A = """SPECIFICATION Spec
CONSTANTS
 SIGS = {0, 1, 2}
 GENS = {0, 1, 255}
 DEPTHS = %s
 PLIES = {0, 2}
 VALS <- ValsA
 MOVES = {0, 7}
 NBS = %s
 MAXOPS = 2
INVARIANT TableOK
CHECK_DEADLOCK FALSE
"""
# full buckets / victim choice / generation wrap: random walks with wide domains
CFG_SIM = """SPECIFICATION SimSpec
CONSTANTS
 SIGS <- SimSigs
 GENS <- SomeGens
 DEPTHS <- AllDepths
 PLIES = {0, 1, 5, 63}
 VALS <- ValsSim
 MOVES = {0, 7, 9}
 NBS = {1, 2}
 MAXOPS = 40
INVARIANT TableOK
CHECK_DEADLOCK FALSE
"""


def c15(prop, tier, replay):
    t0 = time.time()
    with vf.scratch("verif-C15-") as work:
        vf.stage_specs(work)
        bins = vf.build_harness(work, ["rec-tt"])
        if replay:
            rp = json.load(open(replay))
            path = os.path.join(work, "replay.ndjson")
            vf.run_recorder([bins["rec-tt"]] + rp["recorder_args"] + ["-out", path], timeout=600)
            _, mm, _ = tc.validate_trace(work, "TTTrace", path)
            bad = [m for m in mm if m["rule"].startswith(("C15/", "PANIC/"))]
            for m in bad[:3]:
                vf.log("replay mismatch: %s" % json.dumps(m)[:600])
            if bad:
                print("VIOLATION property=C15 replay=%s" % replay)
                return 1
            return 0
        # design level: exhaustive small configuration + random walks with real widths
        quick = tier == "quick"
        ra = vf.tlc(work, "TTMC", CFG_A % ("{0, 5}" if quick else "{0, 2, 5}", "{1}" if quick else "{1, 2}"),
                    timeout=3000, workers=vf.NCPU, heap="4g")
        vf.tlc_must_pass(ra, "TT exhaustive configuration A")
        nsim = 300 if quick else 5000

        def sim(i):
            return vf.tlc(work, "TTMC", CFG_SIM, timeout=3000, simulate="num=%d" % nsim, args=["-depth", "40", "-seed", str(vf.seed() * 977 + i)])
        sims = vf.pmap(sim, range(4 if quick else vf.NCPU))
        for r in sims:
            if "rror" in r.out and "No error" not in r.out:
                raise vf.Infra("TT simulation failed:\n" + r.out[-3000:])
        vf.log("design-level TLC done %.1fs: %d distinct states (config A)" % (time.time() - t0, ra.distinct))
        nev = 6000 if quick else 80000

        def job(i):
            args = ["-n", str(nev), "-seed", str(vf.seed() * 7919 + i)]

            def record(path, args=args):
                vf.run_recorder([bins["rec-tt"]] + args + ["-out", path], timeout=900)
            return dict(name="C15-%d" % i, record=record, args=args)
        res = tc.run_shards(work, "TTTrace", [job(i) for i in range(vf.NCPU)], timeout=3000)
        infra = [m for m in res.mm if m["rule"].startswith("INFRA/")]
        if infra:
            raise vf.Infra("model invariant failed on a visited state (TT.tla itself is inconsistent): %s" % infra[:2])
        mine = [m for m in res.mm if m["rule"].startswith(("C15/", "PANIC/"))]
        known, new = vf.classify(prop, mine)
        paths = []
        seen = {}
        for m in new:
            seen[m["rule"]] = seen.get(m["rule"], 0) + 1
            if seen[m["rule"]] > 2 or len(paths) >= 6:
                continue
            paths.append(vf.write_replay(prop, "%s-%d" % (m["rule"].split("/")[1], len(paths)),
                                         {"property": prop, "kind": "tt-ops", "recorder_args": m["args"], "line": m["l"],
                                          "rejected": {k: v for k, v in m.items() if k not in ("file", "args")}}))
        cov = {
            "states": ra.distinct + res.states, "transitions": ra.generated + res.transitions,
            "traces_validated_against_impl": res.traces,
            "operations_judged": res.events, "operation_kinds": res.counts,
            "exhaustive": True,
            "exhaustive_space": "TT.tla config A: every sequence of <= 2 operations over 3 signatures (incl. 0), gens {0,1,255}, depths straddling the keep-deeper margin, plies {0,2}, mate/ordinary/boundary scores, 3 bound types, null/non-null move: %d distinct states, invariant TableOK + ProbeAfterStore + AtMostOneEviction" % ra.distinct,
            "simulation": "%d random walks of 40 operations with depths 0..63, generations incl. wrap, full/colliding buckets" % (nsim * len(sims)),
            "samples": res.samples[:2],
            "rule": "operation sequences on a real transp.Table with colliding keys; bucket dump after every store compared with the model; every probe judged by ProbeOK (the property on the ghost state)",
        }
        vf.write_evidence(prop, tier, "model_checking", cov, time.time() - t0, len(new),
                          ["TLC + TT.tla", "transp/export_verif.go dumps buckets verbatim", "victim choice is modelled, not judged: any divergence of the real table from the model is reported"])
        return vf.report(prop, known, paths)
