"""C19 (tuner optimises the engine's evaluation) and C20 (each training position once per epoch): Tuner.tla, TunerTrace.tla."""
import json
import os
import time

import tracecheck as tc
import vf

CORPUS = os.path.join(vf.VERIF, "corpus", "roots.fen")
TUNER_CFG = "INIT Init\nNEXT Next\nCHECK_DEADLOCK FALSE\nCONSTANTS MaxBits = %d\n MaxN = %d\n"


def design(work, tier):
    r = vf.tlc(work, "TunerMC", TUNER_CFG % ((5, 14) if tier == "quick" else (6, 24)), timeout=3000, heap="2g")
    vf.tlc_must_pass(r, "Tuner.tla (Feistel bijection for arbitrary round functions, batch/chunk partition)")
    if not any(s.startswith("TUNERMC ") for s in r.printed):
        raise vf.Infra("TunerMC did not evaluate its obligations")
    return r


def finish(prop, tier, res, dm, t0, level, rule, extra):
    infra = [m for m in res.mm if m["rule"].startswith("INFRA/")]
    if infra:
        raise vf.Infra("recorder contract broken: %s" % json.dumps(infra[:2])[:1500])
    mine = [m for m in res.mm if m["rule"].startswith((prop + "/", "PANIC/"))]
    known, new = vf.classify(prop, mine)
    paths, seen = [], {}
    for m in new:
        seen[m["rule"]] = seen.get(m["rule"], 0) + 1
        if seen[m["rule"]] > 2 or len(paths) >= 6:
            continue
        paths.append(vf.write_replay(prop, "%s-%d" % (m["rule"].split("/")[1][:40], len(paths)),
                                     {"property": prop, "kind": "tuner-recording", "recorder_args": m["args"], "line": m["l"],
                                      "rejected": {kk: v for kk, v in m.items() if kk not in ("file", "args")}}))
    cov = {"states": res.states + dm.distinct, "transitions": res.transitions + dm.generated,
           "traces_validated_against_impl": res.traces if res.traces else res.events,
           "evaluations": res.events, "event_kinds": res.counts, "rule": rule,
           "samples": [tc.trim(s, 500) for s in res.samples[:2]]}
    cov.update(extra)
    vf.write_evidence(prop, tier, level, cov, time.time() - t0, len(new),
                      ["TLC + Tuner.tla/TunerTrace.tla", "tuner packages epd, tuning are copied unmodified from /repo/tools/tuner into a scratch module and compiled with -tags verif"])
    return vf.report(prop, known, paths)


def run(prop, tier, replay):
    t0 = time.time()
    with vf.scratch("verif-%s-" % prop) as work:
        vf.stage_specs(work)
        bins = vf.build_tuner_harness(work, work, ["rec-tuner"])
        data = os.path.join(work, "data")
        os.makedirs(data)
        if prop == "C19":
            bins.update(vf.build_harness(work, ["rec-board"]))
        fens = os.path.join(work, "positions.fen")

        def mkfens(n, sd):
            vf.run([bins["rec-board"], "-mode", "fens", "-n", str(n), "-seed", str(sd), "-corpus", CORPUS, "-out", fens], timeout=900)
            # the specification re-checks that every generated position is valid
            lst = os.path.join(work, "positions.ndjson")
            vf.run([bins["rec-board"], "-mode", "list", "-obs", "", "-corpus", fens, "-out", lst], timeout=900)
            _, mm, _ = tc.validate_trace(work, "GameTrace", lst, timeout=3000)
            if mm:
                raise vf.Infra("generated positions rejected by the specification: %s" % mm[:2])
        if replay:
            rp = json.load(open(replay))
            path = os.path.join(work, "replay.ndjson")
            args = list(rp["recorder_args"])
            if "-fens" in args:
                i = args.index("-fens")
                mkfens(int(rp.get("nfens", 3000)), int(rp.get("fenseed", 1)))
                args[i + 1] = fens
            vf.run_recorder([bins["rec-tuner"]] + args + ["-dir", data, "-out", path], timeout=3000)
            _, mm, _ = tc.validate_trace(work, "TunerTrace", path, timeout=3000, env_extra=None)
            bad = [m for m in mm if m["rule"].startswith((prop + "/", "PANIC/"))]
            for m in bad[:3]:
                vf.log("replay mismatch: %s" % json.dumps(m)[:800])
            if bad:
                print("VIOLATION property=%s replay=%s" % (prop, replay))
                return 1
            return 0
        dm = design(work, tier)
        jobs = []
        if prop == "C20":
            nsh = 8 if tier == "quick" else 16
            for i in range(nsh):
                args = ["-mode", "perm", "-tier", tier, "-shard", str(i), "-nshards", str(nsh), "-seed", str(vf.seed() * 31 + i)]

                def rec_(path, args=args):
                    vf.run_recorder([bins["rec-tuner"]] + args + ["-out", path], timeout=3000)
                jobs.append(dict(name="C20-perm-%d" % i, record=rec_, args=args, heap="1g" if tier == "quick" else "3g"))
            for i in range(2 if tier == "quick" else 8):
                args = ["-mode", "epoch", "-tier", tier, "-seed", str(vf.seed() * 131 + i)]

                def rec2(path, args=args, i=i):
                    d = os.path.join(data, "e%d" % i)
                    os.makedirs(d, exist_ok=True)
                    vf.run_recorder([bins["rec-tuner"]] + args + ["-dir", d, "-out", path], timeout=3000)
                jobs.append(dict(name="C20-epoch-%d" % i, record=rec2, args=args))
            res = tc.run_shards(work, "TunerTrace", jobs, timeout=6000)
            return finish(prop, tier, res, dm, t0, "model_checking",
                          "every call of NewChunker/Batches/Chunks/Open/Read on generated data files (all line counts 1..40(200), powers of two +-1, blank lines, 100k+ line multi-batch files, a 36 MB big-line file) and shuffle permutations for all n <= 3000 (8000)",
                          {"design_model": "Tuner.tla: 4-round unbalanced Feistel with arbitrary round functions is a bijection for all widths <= %d; cycle walking is a permutation for all n; 3 rounds are not (necessity); batches/chunks partition for all n <= %d" % ((5, 14) if tier == "quick" else (6, 24))})
        # C19
        nf = 6000 if tier == "quick" else 60000
        mkfens(nf, vf.seed())
        args = ["-mode", "eval", "-fens", fens, "-n", str(nf)]

        def rec3(path, args=args):
            vf.run_recorder([bins["rec-tuner"]] + args + ["-out", path], timeout=3000)
        jobs.append(dict(name="C19-eval", record=rec3, args=args))
        args2 = ["-mode", "vec", "-tier", tier, "-seed", str(vf.seed())]

        def rec4(path, args=args2):
            vf.run_recorder([bins["rec-tuner"]] + args + ["-out", path], timeout=3000)
        jobs.append(dict(name="C19-vec", record=rec4, args=args2))
        res = tc.run_shards(work, "TunerTrace", jobs, timeout=6000)
        for m in res.mm:
            if "args" in m and "-fens" in m["args"]:
                m["nfens"], m["fenseed"] = nf, vf.seed()
        distinct = set()
        for fpath in res.files:
            for e in vf.read_ndjson(fpath):
                if e["ev"] == "evalpair":
                    distinct.add(e["fen"])
                elif e["ev"] == "vec":
                    distinct.add(tuple(e["targets"]))
        rc = finish(prop, tier, res, dm, t0, "exploration",
                    "float evaluation (shipped coefficients as floats) vs integer evaluation on generated valid positions loaded without hash; vector mapping probed for every singleton, pairs, random subsets and the default target list; distinct = different FENs / target subsets",
                    {"distinct_nontrivial": len(distinct)})
        return rc
