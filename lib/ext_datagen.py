"""Extension (beyond the listed properties): the data generator's self-play loop (tools/datagen/client).

Datagen.tla (adjudication counters written as the code has them) is model checked against what they are meant
to compute; DatagenTrace.tla replays every recorded game of the real loop (Generator.Game, unmodified, real
search, stand-in for the gRPC client) by Chess.tla and DatagenRules.tla. Mismatches are rules D/...:
EXT-MISMATCH, exit 1; not violations of C01-C20."""
import json
import os
import time

import tracecheck as tc
import vf

CFG = """SPECIFICATION Spec
CONSTANTS Scores <- ScoresA Cfgs <- CfgsA Mate = 10000 MaxPlies = %d
INVARIANTS %s
CHECK_DEADLOCK FALSE
"""
CORPUS = os.path.join(vf.VERIF, "corpus", "roots.fen")


def model(work, tier):
    plies = 6 if tier == "quick" else 7
    r = vf.tlc(work, "DatagenMC", CFG % (plies, "NoPanic DrawJustified WinJustified DrawNotMissed WinNotMissed MateLabel"), timeout=3000, workers=vf.NCPU, heap="8g")
    vf.tlc_must_pass(r, "Datagen.tla")
    out = dict(constants="96 configurations x 5 score classes, games of up to %d plies" % plies, distinct=r.distinct, generated=r.generated,
               invariants="NoPanic DrawJustified WinJustified DrawNotMissed WinNotMissed MateLabel")
    # the design observation must stay true: after a flip the win adjudication comes one ply late
    r = vf.tlc(work, "DatagenMC", CFG % (4, "WinNotMissedExactly"), timeout=3000, workers=vf.NCPU, heap="4g")
    if "Invariant WinNotMissedExactly is violated" not in r.out:
        raise vf.Infra("expected WinNotMissedExactly to be violated:\n" + r.out[-1500:])
    out["win_adjudication_one_ply_late_after_a_flip"] = True
    return out


def run(tier):
    t0 = time.time()
    with vf.scratch("verif-ext-datagen-") as work:
        vf.stage_specs(work)
        bins = vf.build_datagen_harness(work, work, ["rec-datagen"])
        mdl = model(work, tier) if not os.environ.get("EXT_SKIP_MODEL") else {"skipped": True}
        nsh = vf.NCPU
        ngames = 16 if tier == "quick" else 160

        def job(i):
            args = ["-seed", str(vf.seed() * 6151 + i), "-n", str(ngames), "-corpus", CORPUS]

            def record(path, args=args):
                p = vf.run([bins["rec-datagen"]] + args + ["-out", path], timeout=3000, check=False)
                if p.returncode != 0:
                    if vf.panic_in_engine(p.stderr):
                        raise vf.EnginePanic(p.stderr[-3000:])
                    raise vf.Infra("rec-datagen failed (%d): %s" % (p.returncode, p.stderr[-1500:]))
            return dict(name="datagen-%d" % i, record=record, args=args)
        res = tc.run_shards(work, "DatagenTrace", [job(i) for i in range(nsh)], timeout=3000)
        infra = [m for m in res.mm if m["rule"].startswith("INFRA/")]
        if infra:
            raise vf.Infra("harness contract broken: %s" % json.dumps(infra[:2])[:1200])
        bad = [m for m in res.mm if m["rule"].startswith(("D/", "PANIC/"))]
        plies = 0
        for fpath in res.files:
            for e in vf.read_ndjson(fpath):
                plies += len(e.get("ps") or [])
        os.makedirs(os.path.join(vf.VERIF, "extensions"), exist_ok=True)
        rep = dict(extension="datagen-game-loop", tier=tier, spec=["DatagenRules.tla", "Datagen.tla", "DatagenMC.tla", "DatagenTrace.tla", "Chess.tla"],
                   model=mdl, games=res.events, plies_replayed_by_the_rules=plies, mismatches=len(bad),
                   first_mismatches=[{k: v for k, v in m.items() if k != "file"} for m in bad[:5]], wall_s=round(time.time() - t0, 1))
        with open(os.path.join(vf.VERIF, "extensions", "datagen.json"), "w") as f:
            json.dump(rep, f, indent=1, default=str)
        for m in bad[:5]:
            print("EXT-MISMATCH extension=datagen-game-loop rule=%s args=%s" % (m["rule"], " ".join(m.get("args", []))))
        return 1 if bad else 0
