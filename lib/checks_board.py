"""Checks for the board family: C01 C02 C03 C04 C05 C09 C10 (GameTrace.tla / ChessModel.tla)."""
import json
import os
import re
import time

import tracecheck as tc
import vf

CORPUS = os.path.join(vf.VERIF, "corpus", "roots.fen")
PERFT = os.path.join(vf.VERIF, "corpus", "perft.epd")

# which MM rules each property judges
RULES = {
    "C01": ("C01/",), "C02": ("C02/",), "C03": ("C03/",), "C04": ("C04/",), "C05": ("C05/",),
    "C09": ("C09/",), "C10": ("C10/",), "C11": ("C11/",),
}

# recorder plans: (mode, obs, extra args) with a weight (number of shards out of 16) and events per shard
PLANS = {
    "C01": dict(
        quick=[("play", "legal", ["-plies", "50"], 7, 6000), ("positions", "legal", [], 5, 4000), ("shuffle", "legal", ["-plies", "200"], 2, 5000),
               ("uciperft", "", [], 2, 220)],
        thorough=[("play", "legal", ["-plies", "70"], 7, 60000), ("positions", "legal", [], 5, 40000), ("shuffle", "legal", ["-plies", "400"], 2, 50000),
                  ("uciperft", "", [], 2, 2500)]),
    "C02": dict(
        quick=[("play", "fen", ["-plies", "60"], 10, 8000), ("shuffle", "fen", ["-plies", "170"], 3, 6000),
               ("ucipos", "", ["-plies", "40"], 3, 250)],
        thorough=[("play", "fen", ["-plies", "80"], 9, 80000), ("shuffle", "fen", ["-plies", "300"], 3, 60000),
                  ("ucipos", "", ["-plies", "150"], 4, 1500)]),
    "C03": dict(
        quick=[("walk", "hash,hashes", ["-plies", "24"], 12, 5000), ("searchops", "", [], 4, 9000)],
        thorough=[("walk", "hash,hashes", ["-plies", "40"], 12, 50000), ("searchops", "", [], 4, 90000)]),
    "C04": dict(
        quick=[("play", "hash", ["-plies", "60"], 4, 5000), ("walk", "hash", ["-plies", "20"], 3, 5000), ("shuffle", "hash", ["-plies", "200"], 2, 5000),
               ("transp", "", [], 3, 1200), ("searchops", "", [], 3, 9000), ("zkeys", "", [], 1, 1)],
        thorough=[("play", "hash", ["-plies", "80"], 4, 50000), ("walk", "hash", ["-plies", "30"], 3, 50000), ("shuffle", "hash", ["-plies", "300"], 2, 50000),
                  ("transp", "", [], 3, 12000), ("searchops", "", [], 3, 90000), ("zkeys", "", [], 1, 1)]),
    "C05": dict(
        quick=[("positions", "gen", [], 9, 6000), ("play", "gen", ["-plies", "40"], 5, 6000), ("ucimoves", "", [], 2, 60)],
        thorough=[("positions", "gen", [], 9, 60000), ("play", "gen", ["-plies", "60"], 5, 60000), ("ucimoves", "", [], 2, 600)]),
    "C09": dict(
        quick=[("positions", "status", [], 9, 6000), ("play", "status", ["-plies", "80"], 7, 6000)],
        thorough=[("positions", "status", [], 9, 60000), ("play", "status", ["-plies", "100"], 7, 60000)]),
    "C10": dict(
        quick=[("shuffle", "rep,hash", ["-plies", "120", "-rawep"], 9, 5000), ("play", "rep,hash", ["-plies", "80", "-rawep"], 4, 5000),
               ("ucirep", "", ["-plies", "60"], 2, 200), ("zkeys", "", [], 1, 1)],
        thorough=[("shuffle", "rep,hash", ["-plies", "300", "-rawep"], 9, 50000), ("play", "rep,hash", ["-plies", "120", "-rawep"], 4, 50000),
                  ("ucirep", "", ["-plies", "120"], 2, 400), ("zkeys", "", [], 1, 1)]),
}

REPLAY_OBS = {"C01": "legal", "C02": "fen", "C03": "hash,hashes", "C04": "hash", "C05": "gen", "C09": "status",
              "C10": "rep,hash", "C11": "fen,canon"}


def shard_jobs(prop, tier, bins, work):
    plan = PLANS[prop][tier]
    jobs = []
    base = vf.seed() * 100003
    k = 0
    for (mode, obs, extra, nshards, nev) in plan:
        for i in range(nshards):
            k += 1
            sd = base + k

            if mode == "searchops":
                # every make/undo/null the REAL search performs, through the board observer hook
                args = ["-n", str(nev), "-seed", str(sd)]

                def record(path, args=args):
                    vf.run_recorder([bins["rec-searchops"]] + args + ["-corpus", CORPUS, "-out", path], timeout=900)
                jobs.append(dict(name="%s-searchops-%d" % (prop, i), record=record, args=["searchops"] + args))
                continue
            args = ["-mode", mode, "-obs", obs, "-n", str(nev), "-seed", str(sd)] + list(extra)

            def record(path, args=args):
                vf.run_recorder([bins["rec-board"]] + args + ["-corpus", CORPUS, "-out", path], timeout=900)
            jobs.append(dict(name="%s-%s-%d" % (prop, mode, i), record=record, args=args, env={"PROP": prop}))
    return jobs


def model_run(prop, tier, bins, work):
    """Design-level TLC run: ChessModel invariants by BFS + perft self-validation of the oracle."""
    roots = os.path.join(work, "roots.ndjson")
    # the perft reference roots, in file order, as load events
    fens, ref = [], []
    for line in open(PERFT):
        line = line.strip()
        if not line:
            continue
        parts = line.split(" ;")
        fens.append(parts[0].strip())
        ref.append({p.split()[0]: int(p.split()[1]) for p in parts[1:]})
    lst = os.path.join(work, "perft.fen")
    with open(lst, "w") as f:
        f.write("\n".join(fens) + "\n")
    vf.run([bins["rec-board"], "-mode", "list", "-obs", "", "-corpus", lst, "-out", roots], timeout=300)
    nsh = vf.NCPU
    depth = 1 if tier == "quick" else 2
    pd = 2
    invs = ["NoKingCapture", "ValidPreserved", "RightsImplyHome", "EpMeansCapturable", "MirrorInvolution",
            "MirrorCommutes", "StatusConsistent", "ClocksSane", "KeyIgnoresClocks"]
    cfg = "INIT Init\nNEXT Next\nCHECK_DEADLOCK FALSE\nPOSTCONDITION PerftReport\n" + "".join("INVARIANT %s\n" % i for i in invs)

    def one(sh):
        return vf.tlc(work, "ChessModel", cfg, env_extra=dict(ROOTS=roots, SHARD=sh, NSHARDS=nsh, MAXDEPTH=depth, PERFTDEPTH=pd),
                      timeout=1500)
    results = vf.pmap(one, range(nsh))
    states = trans = 0
    got = {}
    for r in results:
        vf.tlc_must_pass(r, "ChessModel")
        states += r.distinct
        trans += r.generated
        for s in r.printed:
            if s.startswith("PERFT "):
                _, i, v = s.split()
                got[int(i)] = int(v)
    if len(got) != len(fens):
        raise vf.Infra("perft self-validation incomplete: %d of %d roots" % (len(got), len(fens)))
    for i, v in got.items():
        want = ref[i - 1].get("D%d" % pd)
        if want is not None and want != v:
            raise vf.Infra("the specification's own perft(%d) of %s is %d, the published reference says %d: Chess.tla is wrong" % (pd, fens[i - 1], v, want))
    return dict(states=states, transitions=trans, invariants=invs, perft_roots=len(got), perft_depth=pd, bfs_depth=depth)


GM_CFG = "INIT Init\nNEXT Next\nCHECK_DEADLOCK FALSE\nINVARIANTS StateOK HashIsFunctionOfKey\n"


def game_model_run(prop, tier, bins, work):
    """Design level for C02/C03/C04: the code-shaped make/undo/hash algorithm (GameModel.tla) refines the rules."""
    roots = os.path.join(work, "gm-roots.ndjson")
    vf.run([bins["rec-board"], "-mode", "list", "-obs", "", "-corpus", CORPUS, "-out", roots], timeout=300)
    nsh = vf.NCPU
    depth = 1 if tier == "quick" else 2

    def one(sh):
        return vf.tlc(work, "GameModel", GM_CFG, env_extra=dict(ROOTS=roots, SHARD=sh, NSHARDS=nsh, MAXDEPTH=depth), timeout=3000, heap="2g")
    rs = vf.pmap(one, range(nsh))
    for r in rs:
        vf.tlc_must_pass(r, "GameModel.tla (code-shaped make/undo refines Chess!Make)")
    return dict(module="GameModel.tla", states=sum(r.distinct for r in rs), transitions=sum(r.generated for r in rs), depth=depth,
                checked=["MakeRefines", "UndoRestores", "NullUndoRestores", "HashIsScratch", "Consistent", "TokenFits", "HashIsFunctionOfKey", "legality filter"])


ENUM_CLASSES = [5, 1, 9, 4, 13, 2, 3, 12, 10, 11]   # Q P p R q N B r n b


def enum_classes(prop, tier, bins, work, res):
    """Exhaustive small-material classes K+X v K / K v K+x (EnumTrace.tla); merged into res."""
    quick = tier == "quick"
    rot = vf.seed() % len(ENUM_CLASSES)
    classes = [ENUM_CLASSES[rot], ENUM_CLASSES[(rot + 1) % len(ENUM_CLASSES)]] if quick else ENUM_CLASSES
    if quick and 1 not in classes and 9 not in classes:
        classes[1] = [1, 9][vf.seed() % 2]        # always one pawn class: pawns are where the colour-specific code is
    every = 8 if quick else 1
    nsh = 8 if quick else 16
    jobs = []
    for x in classes:
        for i in range(nsh):
            args = ["-mode", "enum", "-x", str(x), "-shard", str(i), "-nshards", str(nsh), "-every", str(every)]

            def record(path, args=args):
                vf.run_recorder([bins["rec-board"]] + args + ["-out", path], timeout=900)
            jobs.append(dict(name="%s-enum-%d-%d" % (prop, x, i), record=record, args=args))
    er = tc.run_shards(work, "EnumTrace", jobs, timeout=6000)
    indices = 0
    judged = 0
    for fpath in er.files:
        for e in vf.read_ndjson(fpath):
            indices += len(e["cnt"])
            judged += sum(1 for v in e["cnt"] if v >= 0)
    res.mm += er.mm
    res.states += er.states
    res.transitions += er.transitions
    res.events += er.events
    res.files += er.files
    return {"small_material_classes": {"third_piece_codes": classes, "exhaustive": not quick, "sampled_one_chunk_in": every,
                                       "indices_enumerated": indices, "placements_the_engine_was_asked_about": judged,
                                       "rule": "index = wk + 64 bk + 4096 x + 262144 stm; TLC decides validity and compares playable-move count, encoding checksum and the direct mate/stalemate answer per index"}}


def run(prop, tier, replay):
    t0 = time.time()
    with vf.scratch("verif-%s-" % prop) as work:
        vf.stage_specs(work)
        bins = vf.build_harness(work, ["rec-board", "rec-searchops"])
        vf.log("built harness %.1fs" % (time.time() - t0))
        if replay:
            return do_replay(prop, replay, bins, work)
        model = model_run(prop, tier, bins, work) if prop in ("C01", "C02") else None
        gm = game_model_run(prop, tier, bins, work) if prop in ("C02", "C03", "C04") else None
        if gm:
            if model:
                model["game_model"] = gm
                model["states"] += gm["states"]
                model["transitions"] += gm["transitions"]
            else:
                model = gm
        vf.log("design-level model done %.1fs" % (time.time() - t0))
        jobs = shard_jobs(prop, tier, bins, work)
        res = tc.run_shards(work, "GameTrace", jobs, timeout=3000)
        vf.log("trace validation done %.1fs (%d events)" % (time.time() - t0, res.events))
        extra = None
        if prop in ("C01", "C09"):
            extra = enum_classes(prop, tier, bins, work, res)
            vf.log("small-material classes done %.1fs" % (time.time() - t0))
        return conclude(prop, tier, res, model, t0, extra)


def conclude(prop, tier, res, model, t0, extra_cov=None):
    infra = [m for m in res.mm if m["rule"].startswith("INFRA/")]
    if infra:
        raise vf.Infra("recorder/generator contract broken: %s" % json.dumps(infra[:3]))
    # an engine panic during the operations this property quantifies over counts against this property
    mine = [m for m in res.mm if m["rule"].startswith(RULES[prop]) or m["rule"].startswith("PANIC/")]
    other = [m for m in res.mm if m not in mine]
    other_rules = {}
    for m in other:
        k = m["rule"] + (" [" + m["class"] + "]" if m.get("class") else "")
        other_rules[k] = other_rules.get(k, 0) + 1
    for m in other[:5]:
        vf.log("note: mismatch outside %s (judged by its own check): %s %s" % (prop, m["rule"], m.get("class", "")))
    known, new = vf.classify(prop, mine)
    paths = []
    seen_rules = {}
    for m in new:
        r = m["rule"]
        seen_rules[r] = seen_rules.get(r, 0) + 1
        if seen_rules[r] > 2 or len(paths) >= 6:
            continue
        if r.startswith("PANIC/") or "-enum-" in m.get("shard", "") or "-searchops-" in m.get("shard", ""):
            script = {"recorder_args": m.get("args")}
        else:
            script = tc.script_of(m["file"], m["l"])
        name = "%s-%d" % (r.split("/")[1], len(paths))
        paths.append(vf.write_replay(prop, name, {"property": prop, "kind": "board-script", "obs": REPLAY_OBS[prop],
                                                    "script": script, "rejected": {k: v for k, v in m.items() if k not in ("file",)}}))
    cov = {
        "states": res.states + (model["states"] if model else 0),
        "transitions": res.transitions + (model["transitions"] if model else 0),
        "traces_validated_against_impl": res.traces,
        "events_judged": res.events,
        "event_kinds": res.counts,
        "mismatches_total": len(res.mm),
        "mismatches_of_other_properties_seen_on_the_way": other_rules,
        "mismatches_known_findings": len(known),
        "samples": [tc.trim(s) for s in res.samples],
        "rule": "each event is one call on the real board; TLC (GameTrace.tla) recomputes the expected observation from Chess.tla",
        "trace_spec": "spec/GameTrace.tla", "tlc_wall_s_sum": round(res.tlc_wall, 1),
    }
    if model:
        cov["design_model"] = model
    if extra_cov:
        cov.update(extra_cov)
    vf.write_evidence(prop, tier, "model_checking", cov, time.time() - t0, len(new),
                      ["TLC and the TLA+ specification in /verif/spec", "projection code in harness/internal/proj",
                       "position generator validity is re-checked by the specification (INFRA on failure)"])
    return vf.report(prop, known, paths)


def do_replay(prop, replay, bins, work):
    rp = json.load(open(replay))
    sc = rp["script"]
    path = os.path.join(work, "replay.ndjson")
    if "recorder_args" in sc:
        # an engine panic / an enumerated class: re-run the very same recorder invocation (deterministic)
        if sc["recorder_args"] and sc["recorder_args"][0] == "searchops":
            vf.run_recorder([bins["rec-searchops"]] + sc["recorder_args"][1:] + ["-corpus", CORPUS, "-out", path], timeout=900)
        else:
            vf.run_recorder([bins["rec-board"]] + sc["recorder_args"] + ["-corpus", CORPUS, "-out", path], timeout=900)
        if "enum" in sc["recorder_args"]:
            _, mm, total = tc.validate_trace(work, "EnumTrace", path, timeout=3000)
            if [m for m in mm if m["rule"].startswith(RULES[prop])]:
                print("VIOLATION property=%s replay=%s" % (prop, replay))
                return 1
            return 0
    elif "event" in sc:
        path = os.path.join(work, "replay.ndjson")
        # self-contained event (transposition pair / uci position): re-execute through the recorder
        with open(os.path.join(work, "ev.json"), "w") as f:
            json.dump(sc["event"], f)
        vf.run([bins["rec-board"], "-mode", "reevent", "-in", os.path.join(work, "ev.json"), "-out", path], timeout=300)
    else:
        with open(os.path.join(work, "script.json"), "w") as f:
            json.dump([sc], f)
        path = os.path.join(work, "replay.ndjson")
        vf.run([bins["rec-board"], "-mode", "script", "-obs", rp.get("obs", REPLAY_OBS[prop]), "-in", os.path.join(work, "script.json"), "-out", path], timeout=300)
    _, mm, total = tc.validate_trace(work, "GameTrace", path, env_extra={"PROP": prop})
    mine = [m for m in mm if m["rule"].startswith(RULES[prop]) or m["rule"].startswith("PANIC/")]
    known, new = vf.classify(prop, mine)
    for m in mine:
        vf.log("replay mismatch: %s" % json.dumps(m))
    if new:
        print("VIOLATION property=%s replay=%s" % (prop, replay))
        return 1
    for k, m in known:
        print("KNOWN-FINDING: property=%s %s (%s)" % (prop, k["what"], k["id"]))
    vf.log("replay: no violation reproduced (%d events)" % total)
    return 0
