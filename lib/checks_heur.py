"""C16 (picker + histories), C17 (evaluation symmetry), C18 (SEE): HeurTrace.tla, Picker.tla, History.tla, See.tla."""
import json
import os
import time

import tracecheck as tc
import vf

CORPUS = os.path.join(vf.VERIF, "corpus", "roots.fen")

PICKER_CFG = """SPECIFICATION Spec
CONSTANTS
 Noisy = %s
 Quiet = %s
 Junk = junk
 None = none
 NoisyW <- NoisyBand
 QuietW <- %s
INVARIANTS Permutation NoDuplicates OnlyPseudo HashFirst
PROPERTY Terminates
CHECK_DEADLOCK FALSE
"""
HISTORY_CFG = "INIT HInit\nNEXT HNext\nCHECK_DEADLOCK FALSE\nINVARIANT HInv\n"

PLANS = {
    "C16": dict(quick=[("pick", 12, 1300)], thorough=[("pick", 14, 14000)]),
    "C17": dict(quick=[("eval", 16, 6000)], thorough=[("eval", 16, 70000)]),
    "C18": dict(quick=[("see", 16, 420)], thorough=[("see", 16, 5000)]),
}


def design_c16(work, tier):
    quick = tier == "quick"
    n, q = ("{n1, n2}", "{q1, q2}") if quick else ("{n1, n2, n3}", "{q1, q2}")
    r = vf.tlc(work, "PickerMC", PICKER_CFG % (n, q, "QuietBandW"), timeout=3000, workers=vf.NCPU, heap="4g")
    vf.tlc_must_pass(r, "Picker.tla")
    # necessity: with a quiet weight on the sentinel the permutation property must FAIL (non-vacuity of the band argument)
    rb = vf.tlc(work, "PickerMC", PICKER_CFG % ("{n1}", "{q1, q2}", "QuietBroken"), timeout=600, workers=4, heap="2g")
    if "Invariant Permutation is violated" not in rb.out:
        raise vf.Infra("Picker.tla necessity run did not fail as expected:\n" + rb.out[-1500:])
    # History.tla: one-step bound, exhaustive over all stored values x all clamped bonuses, sharded by rows
    nsh = vf.NCPU

    def hist(i):
        return vf.tlc(work, "HistoryMC", HISTORY_CFG, env_extra={"SHARD": i, "NSHARDS": nsh, "STRIDE": 4 if quick else 1}, timeout=3000, heap="1g")
    hs = vf.pmap(hist, range(nsh))
    for h in hs:
        vf.tlc_must_pass(h, "History.tla OneStepBound")
    # Apalache: the same bound symbolically, for every stored value and EVERY integer bonus
    import shutil
    d = os.path.join(work, "apa-hist")
    os.makedirs(d, exist_ok=True)
    for f in ("History.tla", "HistoryApa.tla"):
        shutil.copy(os.path.join(vf.SPEC, f), d)
    pa = vf.run(["timeout", "600", "apalache-mc", "check", "--init=Init", "--inv=Inv", "--length=0", "--out-dir=" + os.path.join(d, "out"), "HistoryApa.tla"],
                cwd=d, timeout=700, check=False)
    if "The outcome is: NoError" not in pa.stdout:
        raise vf.Infra("Apalache did not establish the history band bound:\n" + pa.stdout[-2000:])
    return dict(apalache="HistoryApa.tla: InBand(Step(h, bonus)) for all h in the band and all integer bonuses: NoError",
                picker_states=r.distinct, picker_transitions=r.generated, necessity_counterexample=True,
                history_pairs=sum(int(s.split()[1]) for h in hs for s in h.printed if s.startswith("PAIRS ")),
                history_exhaustive=not quick), r


def run(prop, tier, replay):
    t0 = time.time()
    with vf.scratch("verif-%s-" % prop) as work:
        vf.stage_specs(work)
        bins = vf.build_harness(work, ["rec-heur"])
        if replay:
            rp = json.load(open(replay))
            path = os.path.join(work, "replay.ndjson")
            vf.run_recorder([bins["rec-heur"]] + rp["recorder_args"] + (["-corpus", CORPUS] if "containers" not in rp["recorder_args"] and "grav" not in rp["recorder_args"] else []) + ["-out", path], timeout=1800)
            _, mm, _ = tc.validate_trace(work, "Containers" if "containers" in rp["recorder_args"] else "HeurTrace", path, timeout=3000)
            bad = [m for m in mm if m["rule"].startswith((prop + "/", "PANIC/"))]
            for m in bad[:3]:
                vf.log("replay mismatch: %s" % json.dumps(m)[:800])
            if bad:
                print("VIOLATION property=%s replay=%s" % (prop, replay))
                return 1
            return 0
        design, dm = (None, None)
        if prop == "C16":
            design, dm = design_c16(work, tier)
            vf.log("design-level models done %.1fs" % (time.time() - t0))
        jobs = []
        k = 0
        for (mode, nsh, nev) in PLANS[prop][tier]:
            for i in range(nsh):
                k += 1
                args = ["-mode", mode, "-n", str(nev), "-seed", str(vf.seed() * 15485863 + k)]

                def record(path, args=args):
                    vf.run_recorder([bins["rec-heur"]] + args + ["-corpus", CORPUS, "-out", path], timeout=3000)
                jobs.append(dict(name="%s-%s-%d" % (prop, mode, i), record=record, args=args))
        if prop == "C16":
            gsh = 4 if tier == "quick" else 16
            for i in range(gsh):
                args = ["-mode", "grav", "-shard", str(i), "-nshards", str(gsh)] + (["-full"] if tier == "thorough" else [])

                def record(path, args=args):
                    vf.run_recorder([bins["rec-heur"]] + args + ["-out", path], timeout=3000)
                jobs.append(dict(name="C16-grav-%d" % i, record=record, args=args))
        res = tc.run_shards(work, "HeurTrace", jobs, timeout=6000)
        if prop == "C16":
            # the containers the picker is built on: move.Store frames and the bounded history stack
            cjobs = []
            for i in range(3):
                args = ["-mode", "containers", "-n", str(8000 if tier == "quick" else 80000), "-seed", str(vf.seed() * 9973 + i)]

                def recordc(path, args=args):
                    vf.run_recorder([bins["rec-heur"]] + args + ["-out", path], timeout=3000)
                cjobs.append(dict(name="C16-containers-%d" % i, record=recordc, args=args))
            cres = tc.run_shards(work, "Containers", cjobs, timeout=3000)
            res.mm += cres.mm
            res.events += cres.events
            res.states += cres.states
            res.transitions += cres.transitions
            for kk, v in cres.counts.items():
                res.counts[kk] = res.counts.get(kk, 0) + v
        vf.log("trace validation done %.1fs (%d events)" % (time.time() - t0, res.events))
        infra = [m for m in res.mm if m["rule"].startswith("INFRA/")]
        if infra:
            raise vf.Infra("recorder contract broken: %s" % json.dumps(infra[:2])[:1500])
        mine = [m for m in res.mm if m["rule"].startswith((prop + "/", "PANIC/"))]
        known, new = vf.classify(prop, mine)
        paths, seen = [], {}
        for m in new:
            seen[m["rule"]] = seen.get(m["rule"], 0) + 1
            if seen[m["rule"]] > 2 or len(paths) >= 6:
                continue
            paths.append(vf.write_replay(prop, "%s-%d" % (m["rule"].split("/")[1][:40], len(paths)),
                                         {"property": prop, "kind": "heur-recording", "recorder_args": m["args"], "line": m["l"],
                                          "rejected": {kk: v for kk, v in m.items() if kk not in ("file", "args")}}))
        # distinct non-trivial cases, counted
        distinct = set()
        total_moves = 0
        for fpath in res.files:
            for e in vf.read_ndjson(fpath):
                if e["ev"] == "pick":
                    distinct.add((e.get("fen", ""), e["hm"], e["hist"], len(e["y"])))
                elif e["ev"] == "see":
                    for row in e["rows"]:
                        total_moves += 1
                        if 0 < sum(row["ans"]) < len(row["ans"]):
                            distinct.add((e["fen"], row["m"]))
                elif e["ev"] == "eval":
                    distinct.add((e["fen"], e["via"]))
                elif e["ev"] == "grav":
                    distinct.add((e["tab"], e["h"], e["b"]))
        level = "model_checking" if prop in ("C16", "C18") else "exploration"
        cov = {
            "states": res.states + (dm.distinct if dm else 0), "transitions": res.transitions + (dm.generated if dm else 0),
            "traces_validated_against_impl": res.events,
            "evaluations": res.events, "distinct_nontrivial": len(distinct),
            "rule": {"C16": "picker runs: (position, hash-move candidate, history state); gravity triples (table, stored value, bonus); distinct = different tuples",
                     "C17": "evaluations of a position, its mirror and variants differing only in non-positional state; distinct = (FEN, variant kind)",
                     "C18": "(position, legal move) with SEE answers over 109 thresholds; non-trivial = the answer changes inside the sweep"}[prop],
            "event_kinds": res.counts, "see_moves_judged": total_moves,
            "samples": [tc.trim(s, 700) for s in res.samples[:2]],
        }
        if design:
            cov["design_model"] = design
        vf.write_evidence(prop, tier, level, cov, time.time() - t0, len(new),
                          ["TLC + Chess.tla/See.tla/History.tla/Picker.tla", "rec-heur logs values verbatim"])
        return vf.report(prop, known, paths)
