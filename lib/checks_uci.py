"""C13: UCI driver (Uci.tla, UciMC.tla, UciTrace.tla, rec-uci)."""
import json
import os
import subprocess
import time

import tracecheck as tc
import vf

MC_CFG = """SPECIFICATION Spec
CONSTANTS
 MaxCmds = %d
 MaxInfos = 2
 OutCap = 4
 PonderCap = %d
 Timed = TRUE
 UciLines = 3
INVARIANTS NoPanic AtMostOneBest InfoBeforeBest NeverTooManyAnswers AtEnd
PROPERTY Termination
"""
GEN_CFG = """INIT Init2
NEXT Next2
INVARIANT Emit
CHECK_DEADLOCK FALSE
CONSTANTS
 MaxCmds = %d
 MaxInfos = 1
 OutCap = 4
 PonderCap = 1
 Timed = FALSE
 UciLines = 6
 MaxSearchSteps = 2
"""
TRACE_CFG = """INIT TInit
NEXT TNext
POSTCONDITION Done2
CHECK_DEADLOCK FALSE
CONSTANTS
 MaxCmds = 0
 MaxInfos = 0
 OutCap = 4
 PonderCap = 1
 Timed = TRUE
 UciLines <- TraceUciLines
"""


def build_race(work):
    out = os.path.join(work, "rec-uci-race")
    modfile = ["-modfile=" + os.path.join(work, "alt.mod")] if vf.REPO != "/repo" else []
    p = vf.run(["go", "build"] + modfile + ["-tags", "verif", "-race", "-gcflags=all=-d=checkptr=0", "-o", out, "./cmd/rec-uci"], cwd=vf.HARNESS, env=vf.goenv(), timeout=1200, check=False)
    if p.returncode != 0:
        raise vf.Infra("race build failed:\n" + p.stderr[-3000:])
    return out


def validate(work, path):
    res = vf.tlc(work, "UciTrace", TRACE_CFG, env_extra={"TRACE": path}, timeout=3000, heap="3g")
    acc = [json.loads(s[len("ACCEPTED "):]) for s in res.printed if s.startswith("ACCEPTED ")]
    hw = [json.loads(s[len("HIGHWATER "):]) for s in res.printed if s.startswith("HIGHWATER ")]
    if not acc or not res.no_error:
        raise vf.Infra("UciTrace validation failed:\n" + res.out[-3000:])
    evs = vf.read_ndjson(path)
    ids = sorted({e["t"] for e in evs})
    high = hw[-1]
    if isinstance(high, dict):
        high = {int(k): v for k, v in high.items()}
    else:
        high = {i + 1: v for i, v in enumerate(high)}
    return res, set(acc[-1]), ids, high, evs


def judge(evs, ids, accepted, high):
    """-> (violations [(rule, scenario id, first unconsumed event)], infra list)"""
    viol, infra = [], []
    by = {}
    for i, e in enumerate(evs):
        by.setdefault(e["t"], []).append((i + 1, e))
    for t in ids:
        if t in accepted:
            for _, e in by[t]:
                if e["ev"] == "timeout":
                    infra.append((t, e))
            continue
        hwm = high.get(t, 0)
        stuck = None
        for (ln, e) in by[t]:
            if ln >= hwm:
                stuck = e
                break
        rule = "C13/not-a-behaviour-of-Uci.tla"
        if stuck is not None:
            if stuck["ev"] == "out" and stuck.get("kind") == "torn":
                rule = "C13/torn-output-line"
            elif stuck["ev"] == "timeout":
                rule = "C13/no-answer-although-the-model-must-progress"
            elif stuck["ev"] == "leak":
                rule = "C13/goroutines-left-behind"
            elif stuck["ev"] == "out":
                rule = "C13/unexpected-output-line"
            elif stuck["ev"] == "exit":
                rule = "C13/exit-in-a-state-the-model-does-not-allow"
        viol.append((rule, t, stuck))
    return viol, infra


def c13(prop, tier, replay):
    t0 = time.time()
    with vf.scratch("verif-C13-") as work:
        vf.stage_specs(work)
        bins = vf.build_harness(work, ["rec-uci"])
        if replay:
            rp = json.load(open(replay))
            exe = build_race(work) if rp.get("race") else bins["rec-uci"]
            for attempt in range(4):
                path = os.path.join(work, "replay-%d.ndjson" % attempt)
                p = vf.run([exe] + rp["recorder_args"] + ["-out", path], timeout=1800, check=False)
                if "DATA RACE" in p.stderr or (p.returncode != 0 and vf.panic_in_engine(p.stderr)):
                    print("VIOLATION property=C13 replay=%s" % replay)
                    return 1
                if p.returncode != 0:
                    raise vf.Infra("recorder failed: " + p.stderr[-2000:])
                _, acc, ids, high, evs = validate(work, path)
                viol, _ = judge(evs, ids, acc, high)
                if viol:
                    vf.log("replay reproduced: %s" % (viol[0],))
                    print("VIOLATION property=C13 replay=%s" % replay)
                    return 1
            vf.log("replay: not reproduced in 4 runs of the same scenarios (timing dependent)")
            return 0
        quick = tier == "quick"
        race_exe = build_race(work)
        # design level
        mc = vf.tlc(work, "UciMC", MC_CFG % (3 if quick else 4, 1), timeout=6000, workers=vf.NCPU, heap="12g")
        vf.tlc_must_pass(mc, "Uci.tla")
        bad = vf.tlc(work, "UciMC", MC_CFG % (3, 0), timeout=3000, workers=vf.NCPU, heap="8g")
        if "Deadlock reached" not in bad.out:
            raise vf.Infra("Uci.tla with an unbuffered ponderhit channel should deadlock (non-vacuity check):\n" + bad.out[-1500:])
        vf.log("Uci.tla model checked: %d distinct states %.1fs" % (mc.distinct, time.time() - t0))
        # model -> implementation: every conforming script of <= 2 (3) commands with every order of mock-search steps,
        # enumerated by TLC in a sequentialised semantics and replayed step by step on a real driver
        gen = vf.tlc(work, "UciGen", GEN_CFG % (2 if quick else 3), timeout=6000, workers=vf.NCPU, heap="12g")
        if not gen.no_error:
            raise vf.Infra("UciGen failed:\n" + gen.out[-2000:])
        allpaths = [s[5:] for s in gen.printed if s.startswith("PATH ")]
        import random
        rnd = random.Random(vf.seed())
        take = min(len(allpaths), 900 if quick else 30000)
        chosen = rnd.sample(allpaths, take)
        vf.log("UciGen enumerated %d behaviours, replaying %d (%.1fs)" % (len(allpaths), take, time.time() - t0))
        nscen = 90 if quick else 700
        shards = []
        for i in range(vf.NCPU):
            race = i % 4 == 3
            args = ["-n", str(nscen if not race else nscen // 3), "-seed", str(vf.seed() * 7907 + i), "-steps", str(10 + (i % 3) * 6), "-real", str([20, 35, 60][i % 3])]
            shards.append((i, race, args))

        nrep = 6
        for j in range(nrep):
            pf = os.path.join(work, "paths-%d.jsonl" % j)
            with open(pf, "w") as f:
                f.write("\n".join(chosen[j::nrep]) + "\n")
            shards.append((100 + j, False, ["-paths", pf, "-seed", str(vf.seed())]))

        def one(sh):
            i, race, args = sh
            path = os.path.join(work, "uci-%d.ndjson" % i)
            p = vf.run([race_exe if race else bins["rec-uci"]] + args + ["-out", path], timeout=3000, check=False)
            racy = "DATA RACE" in p.stderr
            if p.returncode != 0 and not racy and vf.panic_in_engine(p.stderr):
                # the driver (or the search it runs) crashed the process: the property says it never crashes
                return dict(i=i, race=race, args=args, racy="PROCESS DIED: " + p.stderr[-2500:], viol=[], infra=[], states=0, trans=0, ids=[], acc=set(), evs=[])
            if p.returncode != 0 and not racy:
                raise vf.Infra("rec-uci failed (%d): %s" % (p.returncode, p.stderr[-2500:]))
            if racy:
                return dict(i=i, race=race, args=args, racy=p.stderr[-3000:], viol=[], infra=[], states=0, trans=0, ids=[], acc=set(), evs=[])
            res, acc, ids, high, evs = validate(work, path)
            viol, infra = judge(evs, ids, acc, high)
            return dict(i=i, race=race, args=args, racy=None, viol=viol, infra=infra, states=res.distinct, trans=res.generated, ids=ids, acc=acc, evs=evs)
        outs = vf.pmap(one, shards)
        infra = [x for o in outs for x in o["infra"]]
        if infra and not any(o["viol"] or o["racy"] for o in outs):
            raise vf.Infra("the harness waited in vain although the model is quiescent too (scenario generator or machine load problem): %s" % (infra[:2],))
        paths = []
        nviol = 0
        for o in outs:
            if o["racy"]:
                nviol += 1
                if len(paths) < 6:
                    paths.append(vf.write_replay(prop, "data-race-%d" % o["i"], {"property": prop, "kind": "uci-scenarios", "race": True, "recorder_args": o["args"],
                                                                                "rejected": {"rule": "C13/driver-crashed" if o["racy"].startswith("PROCESS DIED") else "C13/data-race", "report": o["racy"]}}))
            for (rule, t, stuck) in o["viol"]:
                nviol += 1
                if len(paths) < 6:
                    scen = [e for e in o["evs"] if e["t"] == t]
                    paths.append(vf.write_replay(prop, "%s-%d-%d" % (rule.split("/")[1][:30], o["i"], t),
                                                 {"property": prop, "kind": "uci-scenarios", "race": o["race"], "recorder_args": o["args"], "scenario": t,
                                                  "rejected": {"rule": rule, "first_unconsumed_event": stuck}, "events": scen[:200]}))
        nsc = sum(len(o["ids"]) for o in outs)
        nev = sum(len(o["evs"]) for o in outs)
        sample = None
        for o in outs:
            if o["evs"]:
                t = o["evs"][0]["t"]
                sample = [{k: v for k, v in e.items() if k in ("ev", "c", "kind", "r", "mock")} for e in o["evs"] if e["t"] == t][:40]
                break
        cov = {
            "states": mc.distinct + sum(o["states"] for o in outs), "transitions": mc.generated + sum(o["trans"] for o in outs),
            "traces_validated_against_impl": nsc, "events_observed": nev,
            "scenarios_with_race_detector": sum(len(o["ids"]) for o in outs if o["race"]),
            "design_model": {"module": "Uci.tla (UciMC)", "distinct_states": mc.distinct, "scripts": "all conforming GUI scripts of <= %d commands" % (3 if quick else 4),
                             "checked": "no Go run-time panic, one bestmove per go after its info lines, readyok/answer counts, deadlock freedom, termination under fairness",
                             "non_vacuity": "PonderCap = 0 (unbuffered ponderhit channel) deadlocks"},
            "behaviours_enumerated_by_tlc": len(allpaths), "behaviours_replayed_on_the_real_driver": take,
            "samples": [sample],
            "rule": "random conforming GUI scripts against a real uci.Driver with a controllable mock search or the real search, racing or waiting; only observable events are logged, TLC infers the driver's internal steps; a scenario must be a behaviour of Uci.tla up to Driver.Run returning with all goroutines gone",
        }
        vf.write_evidence(prop, tier, "model_checking", cov, time.time() - t0, nviol,
                          ["TLC + Uci.tla/UciTrace.tla", "the harness logs `send` before writing and `out` after receiving, under one mutex", "race detector build uses -d=checkptr=0 (the transposition table's unsafe alignment trips checkptr on the unchanged tree)"])
        return vf.report(prop, [], paths)
