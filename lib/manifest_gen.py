#!/usr/bin/env python3
"""Regenerates /verif/MANIFEST.json from the table below (dev tool; the manifest itself is committed)."""
import json
import os
import subprocess
import sys

VERIF = os.path.dirname(os.path.dirname(os.path.abspath(__file__)))

TB = "TLC 1.8 and the TLA+ modules under /verif/spec; the Go projection code under /verif/harness; the verif hook files in /repo"

CHECKS = {
    "C01": dict(
        cat="model_checking", tech="TLA+ rules spec (Chess.tla) + TLC trace validation of recorded engine move lists; TLC BFS invariants + perft self-check of the oracle",
        text="Every recorded position (FEN-loaded corpus, dense random valid positions, castling/en-passant stress roots, random games) carries the engine's filtered move list; TLC recomputes Legal(pos) from Chess.tla (ray walking, make-and-test) and requires set equality without duplicates. The spec keeps its own successor, so moves that are wrong because of drifted engine state (stale rights, missing en-passant target) are judged against the rules. The oracle is validated against the published perft counts on 128 roots and by BFS invariants (ChessModel.tla).",
        note="Sampled positions, not all positions; validity of every generated root is re-checked by the specification.", ref="DESIGN.md section 4 C01"),
    "C02": dict(
        cat="model_checking", tech="TLC trace validation of every MakeMove against Chess!Make, field by field; UCI position command replayed by the spec",
        text="Each make event logs the successor projected from struct fields and FEN(); GameTrace requires placement, side, rights, en-passant target (engine convention: iff a legal capture exists), halfmove clock and fullmove number to equal Chess!Make. Long reversible histories and `position ... moves` + `fen` through a real driver included. The int8 halfmove clock wrap is a listed known finding (F5).",
        note="Sampled histories; known finding F5 matched by predicate (spec clock >= 128, engine = spec - 256, all other fields equal).", ref="DESIGN.md section 4 C02"),
    "C03": dict(
        cat="model_checking", tech="TLC trace validation of nested make/undo/null walks against Game.tla's stack machine with full snapshots",
        text="Recorder performs exhaustive depth-2 trees over all pseudo-legal moves (illegal ones made and undone), random nested walks, null moves, walks after 90-200 ply games (strictly reversible ones take the 8-bit clock past 127), and 2,100-ply marathon games with make/undo pairs around the 2,048th ply and a full take-back; every event logs all fields, both counters, the hash and the entire hash history. GameTrace pops Game.tla's stack on undo and requires the logged snapshot to equal the one logged before the matching make.",
        note="Sampled walks; snapshot equality is on projected fields + hash history (hook VerifHashes).", ref="DESIGN.md section 4 C03"),
    "C04": dict(
        cat="model_checking", tech="TLC trace validation: incremental hash vs scratch hash, three placements, key<->hash bijection per game, constructed transposition pairs judged by the spec's Key",
        text="Every event logs Hash(), the from-scratch hash, and three independently derived placements; within each game TLC requires equal keys <=> equal hashes; transposition pairs (permuted move orders incl. null moves) are judged by Chess!Key: same key iff same hash. All 781 Zobrist keys are derived from hashes of one-feature position pairs and must be pairwise distinct and non-zero.",
        note="64-bit hash collisions assumed absent within a run.", ref="DESIGN.md section 4 C04"),
    "C05": dict(
        cat="model_checking", tech="exhaustive 2^15 encodings per sampled position; accepted set = generated set = Pseudo(pos) of Chess.tla, judged by TLC",
        text="For every sampled position IsPseudoLegal is evaluated on all 32,768 encodings; TLC requires accepted = generated = Encode(Pseudo(pos)) and no duplicates.",
        note="Exhaustive in the encoding factor, sampled in the position factor.", ref="DESIGN.md section 4 C05"),
    "C09": dict(
        cat="model_checking", tech="TLC trace validation of IsCheckmate/IsStalemate against Status(pos); boxed-king generators",
        text="IsCheckmate (in check) / IsStalemate (not in check) logged for corpus, dense random, boxed-king (king without safe move: verdict hinges on pawn pushes/captures incl. edge files, blocks, pins, en passant) positions and game positions; TLC requires equality with Chess!Status. Preconditions (en-passant normalised) re-checked by the spec.",
        note="Sampled positions.", ref="DESIGN.md section 4 C09"),
    "C10": dict(
        cat="model_checking", tech="TLC trace validation of Threefold() against RepCount over Chess!Key histories; UCI path via go depth 1",
        text="Shuffling and random histories up to 120-300 plies incl. roots with dead en-passant targets, double pushes next to non-capturing pawns, triangulations (the first position recurs after 6 and 10 plies), take-backs followed by other lines with the count asked for only now and then, two lines of equal length into one position; boards set up by ParseFEN into a used Board; Zobrist keys pairwise distinct; Threefold() after every move must equal min(3, occurrences of the current key). Through the driver: a non-final-by-other-means root answers bestmove 0000 exactly at the third occurrence. Known finding F4 (root FEN with dead target) matched by predicate.",
        note="Sampled histories; F4 matched only when the root entry is the single missed occurrence.", ref="DESIGN.md section 4 C10"),
    "C12": dict(
        cat="model_checking", tech="exhaustive dump of attack tables judged entry-by-entry by Geometry.tla ray walking in TLC; mask lemma checked exhaustively",
        text="All 107,648 rook/bishop entries (every subset of the geometric relevant-occupancy mask of every square, completeness counted), king/knight/pawn entries, all 4,096 in-between pairs, every subset again with ALL squares outside the mask occupied and the extreme subsets with each single outside square, plus random full-board occupancies; TLC recomputes each by ray walking. MaskLemma/OffRayLemma discharge the 'squares outside the mask never matter' obligation.",
        note="Complete for the stated index space.", ref="DESIGN.md section 4 C12"),
    "C14": dict(
        cat="model_checking", tech="Apalache proves the requirement for the formula model on the full domain; TLC binds formula model and requirement to VerifLimits and to a real driver",
        text="TimeCtl.tla states the requirement and the formula model; Apalache discharges Requirement(HardModel) for t in 1..10^12, inc in 0..10^9; TLC checks every recorded clock state (dense boundary grid, random to 10^12, both colours, movetime variants, 8 opponent clocks each incl. 0/absent, driver path) against requirement and formula model. Nine deadline probes per run (three of them with the search one ply below the root and 200x more time on the opponent's clock); every driver-path clock state also as the second go of a session (limits of an earlier go must be gone): a blocking search under go wtime / go ponder+ponderhit while the GUI keeps sending harmless lines must be ended by the driver's timer within hard + 5 s (one-sided).",
        note="Formula model compared below ~9*10^8 only (32-bit TLC integers); requirement compared everywhere via limbs.", ref="DESIGN.md section 4 C14"),
}


CHECKS.update({
    "C06": dict(
        cat="model_checking", tech="Search.tla exhaustively model-checked (every abort point / stop arrival / final and non-final roots); TLC trace validation of real search.Go and UCI go runs against Chess.tla",
        text="Real searches on corpus, boxed-king, castle-stress, single-special-move (en-passant capture only, interposing en-passant capture / double push; both colours) and random roots with game prefixes (incl. second/third occurrences): every hard node budget 0..k on ONE engine instance (each k is one abort point, engine searched again after each abort), soft limits, pre-closed stop, stop closed when the depth-d info line passes, TT sizes 32 kB/1 MB/16 MB, used engines on new positions; positions the table cannot tell apart (same bucket and 16-bit signature, found by brute force for small tables) searched one after the other on one engine under every early abort; UCI go with arbitrary numeric arguments. TLC computes root, legal set and finality from FEN + prefix and requires: move null or legal, null only if final, completed search on a final root returns null with score 0/mated, board snapshot identical, one bestmove. Known finding F4-C06 matched by predicate.",
        note="Sampled roots and limits; Search.tla's tree search is abstract.", ref="DESIGN.md section 4 C06"),
    "C07": dict(
        cat="model_checking", tech="TLC replays every reported principal variation through Chess!Make/Legal; Search.tla properties DepthsIncrease/NodesMonotone/BestIsHeadOfLastPV",
        text="Deeper searches (depth up to 8/9) along games on one engine (warmed tables), repetition-heavy histories, tiny 32 kB tables, roots with the clock at 94..99, roots whose children collide in the table with an earlier root; every pv of every info line must be a legal line from the root, the returned move the head of the most recent non-empty pv, the ponder move legal after it, depths strictly increasing, node counts non-decreasing.",
        note="Sampled searches.", ref="DESIGN.md section 4 C07"),
    "C08": dict(
        cat="model_checking", tech="whole games on separate engine instances: soft-limit run A, concurrent repeats C/D, hard-budget replay B; ReproTrace.tla compares lines, results, node counts and state digests; Search.tla NeverOverBudget/NoStoreAfterAbort",
        text="Engines are run exactly as the UCI driver runs them (no counters handed in), boards from board.StartPos() and FEN; A=C=D on every search (info lines without time, result, node count, digest of TT+histories+generation), B (hard budget = A's node count) reproduces A's result, lines, node count and digest with at most one extra abort line; through real drivers: the same depth- or node-limited request on a fresh driver and on one with a past before ucinewgame (clock-limited search, stopped ponder search, table shrunk-cleared-grown) gives the same lines; nodes <= hard at every event incl. every budget 0..k in sweeps and ponder searches with small hard budgets.",
        note="Digest is FNV over TT + history tables (verif hook).", ref="DESIGN.md section 4 C08"),
    "C11": dict(
        cat="exploration", tech="TLC (Fen.tla) generates canonical texts with their positions and all single syntactic edits; Go replayer probes parser/printer/UCI; TLC judges (FenTrace.tla); round trip via GameTrace",
        text="Round trip: FEN text -> FromFEN -> projection must be the position the text denotes by the spec's own printer, FEN() must print it back (positions incl. heavy promoted material, along games). Robustness: for ~100 (900) base positions TLC enumerates semantic edits (canonical, with expected position) and all single syntactic edits (truncate/delete/replace/insert over the FEN alphabet and ANY byte, field dup/drop/swap, 25-digit counters); no panic in ParseFEN/FromFEN/FEN, same result into a reused board, UCI position never installs a rejected position and accepts every promotion-reachable canonical FEN.",
        note="Not a byte-level fuzzer: single edits of canonical texts (ANY expanded to 256 bytes).", ref="DESIGN.md section 4 C11"),
    "C13": dict(
        cat="model_checking", tech="Uci.tla exhaustively model-checked (all conforming scripts <= 3/4 commands: safety, deadlock freedom, termination); observable-event trace validation with TLC inferring the driver's hidden steps; race detector",
        text="Random conforming GUI scripts drive a real uci.Driver over pipes with a controllable mock search (info / poll stop / poll ponderhit / finish on command) or the real search, racing or waiting, slow and stalling output sink, 350-byte info lines, info bursts whose writes race with the next GUI command; only observable events (command about to be sent, line arrived, mock search steps, exit) are logged and every scenario must be a behaviour of Uci.tla up to Run returning with all goroutines gone; one command in five is sent with blanks and tabs before, between and after its tokens; a harness wait that times out is accepted only where the model is quiescent too, and a wait for the exit never where the model has terminated (else: deadlock/lost answer). A quarter of the scenarios run under the race detector; output lines are matched against the output grammar (torn lines).",
        note="Timeouts are 20 s with everything else idle; -race build uses -d=checkptr=0.", ref="DESIGN.md section 4 C13"),
    "C15": dict(
        cat="model_checking", tech="TT.tla (code-shaped table + ghost 'what was stored') exhaustively model-checked on small domains and simulated on real widths; lock-step trace validation of a real transp.Table with colliding keys",
        text="Operation sequences (store/probe/clear/resize-then-clear, bare resize followed by use) on tables of 1..524291 buckets (incl. 16 MB + 1..3 buckets) with keys constructed to collide in bucket and/or signature, generations incl. wrap, depths/plies 0..63, scores across mate and boundary values; after every store the dumped bucket must equal TT.tla's bucket, every probe must satisfy ProbeOK (the property on the ghost state) and equal the model's probe; ProbeAfterStore, AtMostOneEviction, match64 lane selection.",
        note="Victim choice is modelled (any divergence from the code's choice is reported); the exact mate boundary +-(Inf-64) accepts both readings.", ref="DESIGN.md section 4 C15"),
    "C16": dict(
        cat="model_checking", tech="Picker.tla and History.tla model-checked (permutation / hash-first for all small instances; one-step band bound over all stored values x bonuses; necessity counterexample); TLC trace validation of picker runs and gravity triples",
        text="Picker iterated to exhaustion for sampled positions x hash-move candidates (every generated move, none, random and near-miss encodings, the four castling encodings) x history states (empty, driven, saturated), read-only and with the search's write-back of a value into the yielded entry: yielded = Pseudo(pos) exactly once each, hash move first iff pseudo-legal (spec's notion), weights inside their bands. Gravity: (table, stored value, bonus, new value) for all three tables against History!Step and the band.",
        note="Positions sampled; History one-step bound exhaustive in the thorough tier, thinned rows in quick.", ref="DESIGN.md section 4 C16"),
    "C17": dict(
        cat="exploration", tech="TLC (HeurTrace.tla) re-establishes mirror / same-eval-key relations with Chess!Mirror and requires equal evaluations",
        text="For each sampled position: evaluation of the position, of its mirror (built independently, verified by Chess!Mirror), again after unrelated evaluations, with rights/en-passant/fullmove changed, after null-move and make/undo round trips, loaded without hash, and through the UCI eval command; material classes forced (promoted pieces, bare kings, any number of minor pieces, bishop/knight + pawns on one file, stacked rook pawns with the bare king near the corner, KNB v K both colours).",
        note="The evaluation function itself is not modelled (uninterpreted).", ref="DESIGN.md section 4 C17"),
    "C18": dict(
        cat="model_checking", tech="See.tla: recursive capture-sequence minimax returning the set of achievable balances; TLC requires the SEE answers over 109 thresholds to match one balance",
        text="For legal moves of sampled positions (game positions, en-passant, castle stress, constructed batteries with x-rays on files and diagonals) heur.SEE is called for thresholds -1350..1350 step 50 and +-1 around multiples of 100; TLC computes Balances(pos, m) and requires some balance v with answer(t) = (v >= t) for all t, and monotonicity.",
        note="Sampled positions.", ref="DESIGN.md section 4 C18"),
    "C19": dict(
        cat="exploration", tech="TLC judges recorded float/int evaluation pairs and the vector mapping against Tuner.tla's dense-packing model",
        text="Float evaluation with the shipped coefficients vs integer evaluation on generated valid positions loaded without hash (|f*1000 - i*1000*sign| < 2250); vector mapping: for every singleton, pairs, random subsets and the default target list, SetVector/ToVector/TunedParams must address PathOf(layout, targets, k) for probed k, with fresh target slices and with choices built in one reused buffer.",
        note="Both evaluations are opaque to the model.", ref="DESIGN.md section 4 C19"),
    "C20": dict(
        cat="model_checking", tech="Tuner.tla: 4-round unbalanced Feistel with ARBITRARY round functions is a bijection (all widths, TLC), cycle walking a permutation, batches/chunks partition; TunerTrace.tla validates every NewChunker/Batches/Chunks/Open/Read call on generated files",
        text="Files with every line count 1..40 (200), powers of two +-1, blank lines inside and at the end, lines near 4 KiB, 100k+ lines (several batches; short remainders) and a 36 MB big-line file (read-buffer refills), driven as server.go/client.go do; every epoch also read with up to four chunks of one Chunker open at once (alternating Reads, as the client's worker threads do); Batches/Chunks as pure functions of n for thousands of n around multiples of 100,000 against Tuner.tla; shuffle permutations for all n <= 3000 (8000), 16 epochs + random 64-bit epochs, windows up to 2^24+1.",
        note="Feistel model is bound to the code through outputs only (64-bit arithmetic is outside TLC).", ref="DESIGN.md section 4 C20"),
})

NOT_YET = {}


def main():
    commits = subprocess.run(["git", "-C", "/repo", "log", "--format=%H %s"], capture_output=True, text=True).stdout.splitlines()
    hooks = [c.split()[0] for c in commits if c.split(" ", 1)[1].startswith("verif:")]
    props = [json.loads(l) for l in open(os.path.join(VERIF, "properties.jsonl"))]
    checks = []
    na = []
    for p in props:
        pid = p["id"]
        if pid in CHECKS:
            c = CHECKS[pid]
            checks.append({
                "property_id": pid,
                "quick_cmd": "bin/check %s --tier quick" % pid,
                "thorough_cmd": "bin/check %s --tier thorough" % pid,
                "evidence_file": "/verif/evidence/%s.json" % pid,
                "replay_cmd_template": "bin/check %s --replay {path}" % pid,
                "engine": "tla-trace",
                "level_claimed": {"category": c["cat"], "text": c["text"], "design_ref": c["ref"]},
                "level_note": c["note"] + " Trusted base: " + TB,
                "technique": c["tech"],
            })
        else:
            na.append({"property_id": pid, "reason": NOT_YET.get(pid, "check not built yet in this session (under construction; see DESIGN.md)")})
    man = {
        "version": 1,
        "setup_cmd": "bin/setup",
        "hooks": {
            "guard": "verif",
            "enable": "go build -tags verif in /verif/harness (module verifharness, replace github.com/paulsonkoly/chess-3 => /repo); tuner packages are copied into a scratch module at run time",
            "baseline_off_cmd": "cd /repo && GOFLAGS=-mod=mod GOPROXY=off go test -json -vet=off -count=1 -timeout 25m ./...",
            "source_commits": hooks,
            "add_only": True,
        },
        "engines": [{
            "name": "tla-trace", "path": "/verif/bin/check",
            "serves_properties": sorted(CHECKS.keys()),
            "kind_free_text": "explicit TLA+ specification (/verif/spec) checked by TLC/Apalache; Go recorders replay/record the real packages; TLC validates every recorded event against the specification",
        }],
        "checks": checks,
        "notes": "Exit 2 from a check means infrastructure failure (no verdict). Known findings: /verif/known_findings.json. Beyond the listed properties: `bin/ext sched|datagen|sampling|fetch` model-check TunerSched.tla / Datagen.tla / Sampling.tla / TunerFetch.tla (the tuner's distributed job scheduling, the data generator's self-play loop, the extractor's binning, the client's download loop) and validate the real code against them (DESIGN.md sections 14-16a; rules S/ D/ E/ F/, printed as EXT-MISMATCH, never VIOLATION).",
        "not_applicable": na,
    }
    with open(os.path.join(VERIF, "MANIFEST.json"), "w") as f:
        json.dump(man, f, indent=1)
        f.write("\n")
    print("checks:", len(checks), "not_applicable:", len(na))


if __name__ == "__main__":
    main()
