#!/usr/bin/env python3
"""Regenerates /verif/MANIFEST.json from the table below (dev tool; the manifest itself is committed)."""
import json
import os
import subprocess
import sys

VERIF = os.path.dirname(os.path.dirname(os.path.abspath(__file__)))

TB = "TLC 1.8 and the TLA+ modules under /verif/spec; the Go projection code under /verif/harness; the verif hook files in /repo"

CHECKS = {
    "C01": dict(
        cat="model_checking", tech="TLA+ rules spec (Chess.tla) + TLC trace validation of recorded engine move lists; TLC BFS invariants + perft self-check of the oracle",
        text="Every recorded position (FEN-loaded corpus, dense random valid positions, castling/en-passant stress roots, random games) carries the engine's filtered move list; TLC recomputes Legal(pos) from Chess.tla (ray walking, make-and-test) and requires set equality without duplicates. The spec keeps its own successor, so moves that are wrong because of drifted engine state (stale rights, missing en-passant target) are judged against the rules. The oracle is validated against the published perft counts on 128 roots and by BFS invariants (ChessModel.tla).",
        note="Sampled positions, not all positions; validity of every generated root is re-checked by the specification.", ref="DESIGN.md section 4 C01"),
    "C02": dict(
        cat="model_checking", tech="TLC trace validation of every MakeMove against Chess!Make, field by field; UCI position command replayed by the spec",
        text="Each make event logs the successor projected from struct fields and FEN(); GameTrace requires placement, side, rights, en-passant target (engine convention: iff a legal capture exists), halfmove clock and fullmove number to equal Chess!Make. Long reversible histories and `position ... moves` + `fen` through a real driver included. The int8 halfmove clock wrap is a listed known finding (F5).",
        note="Sampled histories; known finding F5 matched by predicate (spec clock >= 128, engine = spec - 256, all other fields equal).", ref="DESIGN.md section 4 C02"),
    "C03": dict(
        cat="model_checking", tech="TLC trace validation of nested make/undo/null walks against Game.tla's stack machine with full snapshots",
        text="Recorder performs exhaustive depth-2 trees over all pseudo-legal moves (illegal ones made and undone), random nested walks, null moves, and walks after 90-170 ply games; every event logs all fields, both counters, the hash and the entire hash history. GameTrace pops Game.tla's stack on undo and requires the logged snapshot to equal the one logged before the matching make.",
        note="Sampled walks; snapshot equality is on projected fields + hash history (hook VerifHashes).", ref="DESIGN.md section 4 C03"),
    "C04": dict(
        cat="model_checking", tech="TLC trace validation: incremental hash vs scratch hash, three placements, key<->hash bijection per game, constructed transposition pairs judged by the spec's Key",
        text="Every event logs Hash(), the from-scratch hash, and three independently derived placements; within each game TLC requires equal keys <=> equal hashes; transposition pairs (permuted move orders incl. null moves) are judged by Chess!Key: same key iff same hash.",
        note="64-bit hash collisions assumed absent within a run.", ref="DESIGN.md section 4 C04"),
    "C05": dict(
        cat="model_checking", tech="exhaustive 2^15 encodings per sampled position; accepted set = generated set = Pseudo(pos) of Chess.tla, judged by TLC",
        text="For every sampled position IsPseudoLegal is evaluated on all 32,768 encodings; TLC requires accepted = generated = Encode(Pseudo(pos)) and no duplicates.",
        note="Exhaustive in the encoding factor, sampled in the position factor.", ref="DESIGN.md section 4 C05"),
    "C09": dict(
        cat="model_checking", tech="TLC trace validation of IsCheckmate/IsStalemate against Status(pos); boxed-king generators",
        text="IsCheckmate (in check) / IsStalemate (not in check) logged for corpus, dense random, boxed-king (king without safe move: verdict hinges on pawn pushes/captures incl. edge files, blocks, pins, en passant) positions and game positions; TLC requires equality with Chess!Status. Preconditions (en-passant normalised) re-checked by the spec.",
        note="Sampled positions.", ref="DESIGN.md section 4 C09"),
    "C10": dict(
        cat="model_checking", tech="TLC trace validation of Threefold() against RepCount over Chess!Key histories; UCI path via go depth 1",
        text="Shuffling and random histories up to 120-300 plies incl. roots with dead en-passant targets and double pushes next to non-capturing pawns; Threefold() after every move must equal min(3, occurrences of the current key). Through the driver: a non-final-by-other-means root answers bestmove 0000 exactly at the third occurrence. Known finding F4 (root FEN with dead target) matched by predicate.",
        note="Sampled histories; F4 matched only when the root entry is the single missed occurrence.", ref="DESIGN.md section 4 C10"),
    "C12": dict(
        cat="model_checking", tech="exhaustive dump of attack tables judged entry-by-entry by Geometry.tla ray walking in TLC; mask lemma checked exhaustively",
        text="All 107,648 rook/bishop entries (every subset of the geometric relevant-occupancy mask of every square, completeness counted), king/knight/pawn entries, all 4,096 in-between pairs, plus random full-board occupancies; TLC recomputes each by ray walking. MaskLemma/OffRayLemma discharge the 'squares outside the mask never matter' obligation.",
        note="Complete for the stated index space.", ref="DESIGN.md section 4 C12"),
    "C14": dict(
        cat="model_checking", tech="Apalache proves the requirement for the formula model on the full domain; TLC binds formula model and requirement to VerifLimits and to a real driver",
        text="TimeCtl.tla states the requirement and the formula model; Apalache discharges Requirement(HardModel) for t in 1..10^12, inc in 0..10^9; TLC checks every recorded clock state (dense boundary grid, random to 10^12, both colours, movetime variants, 5 opponent clocks each, driver path) against requirement and formula model.",
        note="Formula model compared below ~9*10^8 only (32-bit TLC integers); requirement compared everywhere via limbs.", ref="DESIGN.md section 4 C14"),
}

NOT_YET = {}


def main():
    commits = subprocess.run(["git", "-C", "/repo", "log", "--format=%H %s"], capture_output=True, text=True).stdout.splitlines()
    hooks = [c.split()[0] for c in commits if c.split(" ", 1)[1].startswith("verif:")]
    props = [json.loads(l) for l in open(os.path.join(VERIF, "properties.jsonl"))]
    checks = []
    na = []
    for p in props:
        pid = p["id"]
        if pid in CHECKS:
            c = CHECKS[pid]
            checks.append({
                "property_id": pid,
                "quick_cmd": "bin/check %s --tier quick" % pid,
                "thorough_cmd": "bin/check %s --tier thorough" % pid,
                "evidence_file": "/verif/evidence/%s.json" % pid,
                "replay_cmd_template": "bin/check %s --replay {path}" % pid,
                "engine": "tla-trace",
                "level_claimed": {"category": c["cat"], "text": c["text"], "design_ref": c["ref"]},
                "level_note": c["note"] + " Trusted base: " + TB,
                "technique": c["tech"],
            })
        else:
            na.append({"property_id": pid, "reason": NOT_YET.get(pid, "check not built yet in this session (under construction; see DESIGN.md)")})
    man = {
        "version": 1,
        "setup_cmd": "bin/setup",
        "hooks": {
            "guard": "verif",
            "enable": "go build -tags verif in /verif/harness (module verifharness, replace github.com/paulsonkoly/chess-3 => /repo); tuner packages are copied into a scratch module at run time",
            "baseline_off_cmd": "cd /repo && GOFLAGS=-mod=mod GOPROXY=off go test -json -vet=off -count=1 -timeout 25m ./...",
            "source_commits": hooks,
            "add_only": True,
        },
        "engines": [{
            "name": "tla-trace", "path": "/verif/bin/check",
            "serves_properties": sorted(CHECKS.keys()),
            "kind_free_text": "explicit TLA+ specification (/verif/spec) checked by TLC/Apalache; Go recorders replay/record the real packages; TLC validates every recorded event against the specification",
        }],
        "checks": checks,
        "notes": "Exit 2 from a check means infrastructure failure (no verdict). Known findings: /verif/known_findings.json.",
        "not_applicable": na,
    }
    with open(os.path.join(VERIF, "MANIFEST.json"), "w") as f:
        json.dump(man, f, indent=1)
        f.write("\n")
    print("checks:", len(checks), "not_applicable:", len(na))


if __name__ == "__main__":
    main()
