#!/usr/bin/env python3
"""Offline setup: go.sum for the harness module, warm the Go build cache with -tags verif, sanity-check TLC and the specs."""
import os
import shutil
import subprocess
import sys

sys.path.insert(0, os.path.dirname(os.path.abspath(__file__)))
import vf  # noqa: E402


def main():
    os.makedirs(vf.EVID, exist_ok=True)
    shutil.copy(os.path.join(vf.REPO, "go.sum"), os.path.join(vf.HARNESS, "go.sum"))
    p = subprocess.run(["go", "build", "-tags", "verif", "./..."], cwd=vf.HARNESS, env=vf.goenv())
    if p.returncode != 0:
        print("setup: harness does not build", file=sys.stderr)
        return 1
    with vf.scratch("verif-setup-") as work:
        vf.stage_specs(work)
        for mod in sorted(f[:-4] for f in os.listdir(vf.SPEC) if f.endswith(".tla")):
            r = subprocess.run(["java", "-cp", vf.JARS, "tla2sany.SANY", mod + ".tla"], cwd=work, stdout=subprocess.PIPE, stderr=subprocess.STDOUT, text=True)
            if r.returncode != 0 or "rror" in r.stdout.replace("Semantic errors", "") and "*** Errors" in r.stdout:
                print("setup: %s does not parse:\n%s" % (mod, r.stdout[-2000:]), file=sys.stderr)
                return 1
    print("setup ok")
    return 0


if __name__ == "__main__":
    sys.exit(main())
