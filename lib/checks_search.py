"""C06, C07, C08: search (Search.tla, SearchTrace.tla, ReproTrace.tla)."""
import json
import os
import time

import tracecheck as tc
import vf

CORPUS = os.path.join(vf.VERIF, "corpus", "roots.fen")

SEARCH_CFG = """SPECIFICATION Spec
CONSTANTS
 DepthLimit = 2
 Hards <- HardsMC
 Softs <- SoftsMC
 Moves = {m1, m2}
 MaxTree = %d
 NoMove = NoMove
INVARIANTS ResultLegal ResultNullOnlyIfFinal CompletedFinalIsNull BoardUntouched NeverOverBudget DepthsIncrease NodesMonotone BestIsHeadOfLastPV AbortOnlyAtVisit
PROPERTIES NoStoreAfterAbort Termination
CHECK_DEADLOCK FALSE
"""

# (spec module, mode, extra args, shards, events)
PLANS = {
    "C06": dict(quick=[("SearchTrace", "sweep", ["-k", "80"], 10, 2600), ("SearchTrace", "ucigo", [], 3, 120), ("SearchTrace", "collide", [], 3, 2500)],
                thorough=[("SearchTrace", "sweep", ["-k", "600"], 10, 30000), ("SearchTrace", "ucigo", [], 3, 1500), ("SearchTrace", "collide", [], 3, 15000)]),
    "C07": dict(quick=[("SearchTrace", "pv", ["-depth", "8"], 10, 1300), ("SearchTrace", "sweep", ["-k", "40"], 2, 1500), ("SearchTrace", "collide", [], 4, 2500)],
                thorough=[("SearchTrace", "pv", ["-depth", "9"], 10, 14000), ("SearchTrace", "sweep", ["-k", "200"], 2, 15000), ("SearchTrace", "collide", [], 4, 15000)]),
    "C08": dict(quick=[("ReproTrace", "games", ["-plies", "20"], 10, 700), ("ReproTrace", "ucirepro", [], 2, 60), ("SearchTrace", "sweep", ["-k", "120"], 2, 2000), ("SearchTrace", "limits", [], 2, 1500)],
                thorough=[("ReproTrace", "games", ["-plies", "60"], 10, 8000), ("ReproTrace", "ucirepro", [], 2, 600), ("SearchTrace", "sweep", ["-k", "1500"], 2, 25000), ("SearchTrace", "limits", [], 2, 20000)]),
}


def design_model(work, tier):
    r = vf.tlc(work, "SearchMC", SEARCH_CFG % (5 if tier == "quick" else 6), timeout=3000, workers=vf.NCPU, heap="6g")
    vf.tlc_must_pass(r, "Search.tla")
    return r


def run(prop, tier, replay):
    t0 = time.time()
    with vf.scratch("verif-%s-" % prop) as work:
        vf.stage_specs(work)
        bins = vf.build_harness(work, ["rec-search"])
        if replay:
            rp = json.load(open(replay))
            path = os.path.join(work, "replay.ndjson")
            if rp["module"] == "PVTrace":
                hb = vf.build_harness(work, ["rec-heur"])
                vf.run_recorder([hb["rec-heur"]] + rp["recorder_args"] + ["-out", path], timeout=1800)
            else:
                vf.run_recorder([bins["rec-search"]] + rp["recorder_args"] + ["-corpus", CORPUS, "-out", path], timeout=1800)
            _, mm, _ = tc.validate_trace(work, rp["module"], path, timeout=3000)
            bad = [m for m in mm if m["rule"].startswith((prop + "/", "PANIC/"))]
            for m in bad[:3]:
                vf.log("replay mismatch: %s" % json.dumps(m)[:800])
            if bad:
                print("VIOLATION property=%s replay=%s" % (prop, replay))
                return 1
            return 0
        spsa_bin = None
        if prop == "C06" and tier == "thorough":
            # the spsa build: tunable search parameters become variables; they are set to random in-range values
            spsa_bin = vf.build_harness(os.path.join(work), ["rec-search"], tags="verif spsa")["rec-search"] + "-spsa"
            os.rename(os.path.join(work, "rec-search"), spsa_bin)
            bins = vf.build_harness(work, ["rec-search"])
        dm = design_model(work, tier)
        vf.log("Search.tla model checked: %d distinct states %.1fs" % (dm.distinct, time.time() - t0))
        groups = {}
        k = 0
        for (module, mode, extra, nsh, nev) in PLANS[prop][tier]:
            for i in range(nsh):
                k += 1
                args = ["-mode", mode, "-n", str(nev), "-seed", str(vf.seed() * 104729 + k)] + extra

                def record(path, args=args):
                    vf.run_recorder([bins["rec-search"]] + args + ["-corpus", CORPUS, "-out", path], timeout=3000)
                groups.setdefault(module, []).append(dict(name="%s-%s-%d" % (prop, mode, i), record=record, args=args, module=module))
        pvm = None
        if prop == "C07":
            # the mechanism behind the reported variations: the triangular pv buffer (PV.tla) on the real buffer
            hb = vf.build_harness(work, ["rec-heur"])
            pvm = vf.tlc(work, "PV", "INIT Init\nNEXT Next\nCHECK_DEADLOCK FALSE\nINVARIANTS Refines Fits TilingInv\nCONSTANTS MaxPlies = %d\n Moves = {a, b}\n MaxOps = %d\n NoMove = NoMove\n"
                         % ((4, 7) if tier == "quick" else (5, 8)), timeout=3000, workers=vf.NCPU, heap="4g")
            vf.tlc_must_pass(pvm, "PV.tla")
            for i in range(2):
                k += 1
                pargs = ["-mode", "pvbuf", "-n", str(6000 if tier == "quick" else 60000), "-seed", str(vf.seed() * 104729 + k)]

                def record_pv(path, pargs=pargs, i=i):
                    vf.run_recorder([hb["rec-heur"]] + pargs + ["-out", path], timeout=3000)
                    if i == 0:
                        sp = path + ".scores"
                        vf.run([hb["rec-heur"], "-mode", "scores", "-out", sp], timeout=600)
                        with open(path, "a") as f:
                            f.write(open(sp).read())
                groups.setdefault("PVTrace", []).append(dict(name="C07-pvbuf-%d" % i, record=record_pv, args=pargs, module="PVTrace"))
        if spsa_bin:
            for i in range(4):
                k += 1
                args = ["-mode", "sweep", "-n", "12000", "-seed", str(vf.seed() * 104729 + k), "-k", "300"]

                def record_spsa(path, args=args):
                    vf.run_recorder([spsa_bin] + args + ["-corpus", CORPUS, "-out", path], timeout=3000)
                groups.setdefault("SearchTrace", []).append(dict(name="C06-spsa-%d" % i, record=record_spsa, args=args, module="SearchTrace"))
        # run all shards of all modules together
        results = {}
        all_jobs = [(m, j) for m, js in groups.items() for j in js]

        def one(mj):
            m, j = mj
            return m, tc.run_shards(work, m, [j], timeout=3000)
        outs = vf.pmap(one, all_jobs)
        res = tc.ShardResult()
        for m, r in outs:
            for x in r.mm:
                x["module"] = m
            res.mm += r.mm
            res.events += r.events
            res.traces += r.traces
            res.states += r.states
            res.transitions += r.transitions
            res.files += r.files
            for kk, v in r.counts.items():
                res.counts[kk] = res.counts.get(kk, 0) + v
            if r.samples and len(res.samples) < 2:
                res.samples += r.samples[:1]
        vf.log("trace validation done %.1fs (%d events)" % (time.time() - t0, res.events))
        infra = [m for m in res.mm if m["rule"].startswith("INFRA/")]
        if infra:
            raise vf.Infra("recorder contract broken: %s" % json.dumps(infra[:2])[:1500])
        mine = [m for m in res.mm if m["rule"].startswith((prop + "/", "PANIC/"))]
        for m in [m for m in res.mm if m not in mine][:5]:
            vf.log("note: mismatch outside %s: %s" % (prop, m["rule"]))
        known, new = vf.classify(prop, mine)
        paths, seen = [], {}
        for m in new:
            seen[m["rule"]] = seen.get(m["rule"], 0) + 1
            if seen[m["rule"]] > 2 or len(paths) >= 6:
                continue
            paths.append(vf.write_replay(prop, "%s-%d" % (m["rule"].split("/")[1][:40], len(paths)),
                                         {"property": prop, "kind": "search-recording", "module": m["module"], "recorder_args": m["args"], "line": m["l"],
                                          "rejected": {kk: v for kk, v in m.items() if kk not in ("file", "args")}}))
        nsearch = res.counts.get("go", 0) + res.counts.get("gsearch", 0) + res.counts.get("uciGo", 0)
        cov = {
            "states": dm.distinct + res.states + (pvm.distinct if pvm else 0), "transitions": dm.generated + res.transitions + (pvm.generated if pvm else 0),
            "traces_validated_against_impl": nsearch,
            "searches_judged": nsearch, "events_judged": res.events, "event_kinds": res.counts,
            "design_model": {"module": "Search.tla (SearchMC)", "distinct_states": dm.distinct,
                             "explored": "every hard budget 0..7 and none, soft limits, stop arriving at any step, roots with/without legal moves, drawn or not; safety invariants + NoStoreAfterAbort + termination under fairness"},
            "samples": [tc.trim(s, 900) for s in res.samples[:2]],
            "rule": "real search.Search.Go / uci go runs; TLC recomputes root, legality, finality with Chess.tla and judges every info line and result",
        }
        vf.write_evidence(prop, tier, "model_checking", cov, time.time() - t0, len(new),
                          ["TLC + Search.tla/SearchTrace.tla/Chess.tla", "info lines are parsed by the recorder (move text -> encoding)"])
        return vf.report(prop, known, paths)
