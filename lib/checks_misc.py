"""Checks C12 (attack tables), C14 (time budget)."""
import json
import os
import time

import tracecheck as tc
import vf


# ------------------------------------------------------------------ C12

def c12(prop, tier, replay):
    t0 = time.time()
    with vf.scratch("verif-C12-") as work:
        vf.stage_specs(work)
        bins = vf.build_harness(work, ["rec-attacks"])
        nsh = vf.NCPU
        nrand = 20000 if tier == "quick" else 200000
        if replay:
            rp = json.load(open(replay))
            path = os.path.join(work, "replay.ndjson")
            # re-dump the same table entry from the current tree: find it in a fresh full dump
            vf.run([bins["rec-attacks"], "-shard", "0", "-nshards", "1", "-rand", "0", "-out", path], timeout=600)
            want = rp["entry"]
            keep = [e for e in vf.read_ndjson(path) if e["k"] == want["k"] and e["sq"] == want["sq"] and e["sq2"] == want["sq2"]
                    and e["c"] == want["c"] and sorted(e["occ"]) == sorted(want["occ"])]
            if not keep and want.get("cls") == "full" and want["k"] in ("rook", "bishop"):
                # a random full-board occupancy: recompute exactly that entry
                one = os.path.join(work, "one.ndjson")
                vf.run([bins["rec-attacks"], "-entry", json.dumps({"k": want["k"], "sq": want["sq"], "sq2": want["sq2"], "c": want["c"], "cls": "full", "occ": want["occ"]}),
                        "-out", one], timeout=120)
                keep = vf.read_ndjson(one)
            if not keep:
                raise vf.Infra("the entry of the replay file is not a table entry of this tree: %s" % json.dumps(want)[:300])
            with open(path, "w") as f:
                for e in keep:
                    f.write(json.dumps(e) + "\n")
            res, mm, total = tc.validate_trace(work, "AttackTrace", path, env_extra={"LEMMAS": "0"})
            bad = [m for m in mm if m["rule"].startswith("C12/")]
            if bad:
                print("VIOLATION property=C12 replay=%s" % replay)
                return 1
            vf.log("replay: entry now agrees with the geometry")
            return 0

        def job(i):
            def record(path, i=i):
                vf.run([bins["rec-attacks"], "-shard", str(i), "-nshards", str(nsh), "-rand", str(nrand),
                        "-seed", str(vf.seed()), "-out", path], timeout=600)
            return dict(name="C12-%d" % i, record=record, env={"LEMMAS": "0"})
        res = tc.run_shards(work, "AttackTrace", [job(i) for i in range(nsh)], timeout=1500)
        infra = [m for m in res.mm if m["rule"].startswith("INFRA/")]
        if infra:
            raise vf.Infra("recorder contract broken: %s" % infra[:2])
        # completeness of the exhaustive class: per square and slider, 2^|geometric mask| distinct subsets
        counts = {}
        kinds = {}
        entries = {}
        for fpath in res.files:
            for e in vf.read_ndjson(fpath):
                kinds[e["k"]] = kinds.get(e["k"], 0) + 1
                if e.get("cls") == "mask":
                    counts[(e["k"], e["sq"])] = counts.get((e["k"], e["sq"]), 0) + 1
        # mask sizes as computed by the SPECIFICATION (printed by TLC)
        masks = None
        lem = None
        # re-run a tiny TLC evaluation for the mask sizes and the lemmas (shard 0 printed them)
        # they are in the TLC output of shard 0; tracecheck does not keep outputs, so evaluate again cheaply
        empty = os.path.join(work, "empty.ndjson")
        with open(empty, "w") as f:
            f.write(json.dumps({"k": "king", "sq": 0, "sq2": 0, "c": 0, "cls": "", "occ": [], "res": [1, 8, 9]}) + "\n")
        r0, mm0, _ = tc.validate_trace(work, "AttackTrace", empty, env_extra={"LEMMAS": "1"})
        for s in r0.printed:
            if s.startswith("MASKS "):
                masks = json.loads(s[6:])
            if s.startswith("LEMMAS "):
                lem = s.strip()
        if lem != "LEMMAS TRUE":
            raise vf.Infra("Geometry.tla mask lemma not established: %s" % lem)
        if masks is None:
            raise vf.Infra("mask sizes not printed")
        total_expected = 0
        for sq in range(64):
            for k, idx in (("rook", 0), ("bishop", 1)):
                exp = 2 ** (masks[str(sq)] if isinstance(masks, dict) else masks[sq])[idx]
                total_expected += exp
                if counts.get((k, sq), 0) != exp:
                    raise vf.Infra("exhaustive class incomplete: %s sq %d has %d of %d subsets" % (k, sq, counts.get((k, sq), 0), exp))
        mine = [m for m in res.mm if m["rule"].startswith("C12/")]
        known, new = vf.classify(prop, mine)
        paths = []
        evs_cache = {}
        for m in new[:6]:
            evs = evs_cache.setdefault(m["file"], vf.read_ndjson(m["file"]))
            entry = evs[m["l"] - 1]
            paths.append(vf.write_replay(prop, "%s-%d" % (entry["k"], len(paths)), {"property": prop, "kind": "attack-entry", "entry": entry,
                                                                                    "rejected": {k: v for k, v in m.items() if k != "file"}}))
        cov = {
            "states": res.states + r0.distinct, "transitions": res.transitions + r0.generated,
            "traces_validated_against_impl": len(res.files),
            "entries_judged": res.events, "entries_by_kind": kinds,
            "exhaustive": True,
            "exhaustive_space": "64 squares x every subset of the geometric relevant-occupancy mask: %d rook+bishop entries (all present, counted); 64 king, 64 knight, 256 single-pawn entries; 4096 in-between pairs" % total_expected,
            "random_full_board_occupancies": 2 * nrand,
            "lemmas": ["MaskLemma (every square, direction, ray subset): occupancy of a ray's last square never changes the walk", "OffRayLemma: off-ray squares never change a walk"],
            "samples": [tc.trim(s) for s in res.samples],
            "rule": "every table entry is recomputed by ray walking in Geometry.tla and compared as a set of squares",
        }
        vf.write_evidence(prop, tier, "model_checking", cov, time.time() - t0, len(new),
                          ["TLC + Geometry.tla", "rec-attacks dumps entries verbatim; mask subsets are re-checked by the spec"])
        return vf.report(prop, known, paths)


# ------------------------------------------------------------------ C14

def apalache_time(work):
    """Apalache: the formula model satisfies the requirement on the whole domain (proof of the design)."""
    d = os.path.join(work, "apa")
    os.makedirs(d, exist_ok=True)
    for f in ("TimeCtl.tla", "TimeCtlApa.tla"):
        import shutil
        shutil.copy(os.path.join(vf.SPEC, f), d)
    t0 = time.time()
    p = vf.run(["timeout", "600", "apalache-mc", "check", "--init=Init", "--inv=Inv", "--length=0", "--out-dir=" + os.path.join(d, "out"), "TimeCtlApa.tla"],
               cwd=d, timeout=700, check=False)
    ok = "The outcome is: NoError" in p.stdout
    if not ok:
        raise vf.Infra("Apalache did not establish the time-control requirement for the formula model:\n" + p.stdout[-2000:])
    return dict(tool="apalache-mc 0.58 check --inv=Inv --length=0 TimeCtlApa.tla", outcome="NoError",
                domain="t in 1..10^12, inc in 0..10^9, movetime in 0..10^12", wall_s=round(time.time() - t0, 1))


def c14(prop, tier, replay):
    t0 = time.time()
    with vf.scratch("verif-C14-") as work:
        vf.stage_specs(work)
        bins = vf.build_harness(work, ["rec-time"])
        nsh = vf.NCPU
        nrand = 40000 if tier == "quick" else 600000
        ndrv = 400 if tier == "quick" else 4000
        if replay:
            rp = json.load(open(replay))
            e = rp["entry"]
            val = lambda x: x[0] * (1 << 20) + x[1]
            path = os.path.join(work, "replay.ndjson")
            if "dl" in e:
                vf.run([bins["rec-time"], "-deadline", "-out", path], timeout=300)
            else:
                vf.run([bins["rec-time"], "-one", ",".join(str(v) for v in (val(e["w"]), val(e["b"]), val(e["wi"]), val(e["bi"]), val(e["mt"]), e["stm"])),
                        "-out", path], timeout=120)
            _, mm, _ = tc.validate_trace(work, "TimeTrace", path)
            if [m for m in mm if m["rule"].startswith("C14/")]:
                print("VIOLATION property=C14 replay=%s" % replay)
                return 1
            return 0
        apa = apalache_time(work)

        def job(i):
            def record(path, i=i):
                vf.run([bins["rec-time"], "-shard", str(i), "-nshards", str(nsh), "-rand", str(nrand), "-drv", str(ndrv),
                        "-seed", str(vf.seed()), "-out", path], timeout=600)
            return dict(name="C14-%d" % i, record=record)
        res = tc.run_shards(work, "TimeTrace", [job(i) for i in range(nsh)], timeout=1500)
        mine = [m for m in res.mm if m["rule"].startswith("C14/")]
        known, new = vf.classify(prop, mine)
        paths = []
        cache = {}
        for m in new[:6]:
            evs = cache.setdefault(m["file"], vf.read_ndjson(m["file"]))
            paths.append(vf.write_replay(prop, "%s-%d" % (m["rule"].split("/")[1], len(paths)),
                                         {"property": prop, "kind": "clock-state", "entry": evs[m["l"] - 1], "rejected": {k: v for k, v in m.items() if k not in ("file", "detail")}}))
        cov = {
            "states": res.states, "transitions": res.transitions, "traces_validated_against_impl": len(res.files),
            "clock_states_judged": res.events,
            "apalache": apa,
            "samples": res.samples[:2],
            "rule": "dense grid t in 1..200, k*30+-2, 2^k+-1 (k<=39), clamp break-points x 20 increments x both colours, movetime variants, random up to 10^12; each state also under 8 other opponent clocks (incl. 0 and negative = not reported); %d states through a real driver; 6 deadline probes (blocking search, GUI keeps sending isready/unknown/debug lines, with and without ponderhit): abort must come from the timer within hard+5 s" % ndrv,
        }
        vf.write_evidence(prop, tier, "model_checking", cov, time.time() - t0, len(new),
                          ["TLC, Apalache/Z3", "uci.VerifLimits calls the same timeControl methods handleGo uses (hook file uci/export_verif.go)"])
        return vf.report(prop, known, paths)
