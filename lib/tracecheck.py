"""Shared pipeline: record traces from the real code -> validate each shard with a TLC trace spec -> collect."""
import json
import os
import time

import vf

TRACE_CFG = "INIT TInit\nNEXT TNext\nPOSTCONDITION Done\nCHECK_DEADLOCK FALSE\n"


class ShardResult:
    def __init__(self):
        self.mm = []          # mismatch records (dict) with 'shard' and 'file'
        self.events = 0
        self.traces = 0
        self.states = 0
        self.transitions = 0
        self.samples = []
        self.files = []
        self.tlc_wall = 0.0
        self.counts = {}


def validate_trace(work, module, trace_file, timeout=900, env_extra=None, cfg=TRACE_CFG, deque=False, heap="1g"):
    env = {"TRACE": trace_file}
    if env_extra:
        env.update(env_extra)
    res = vf.tlc(work, module, cfg, env_extra=env, timeout=timeout, deque=deque, heap=heap)
    done = [s for s in res.printed if s.startswith("DONE ")]
    if not done:
        raise vf.Infra("trace validation of %s did not finish:\n%s" % (trace_file, res.out[-3000:]))
    if not res.no_error:
        raise vf.Infra("TLC reported an error while validating %s:\n%s" % (trace_file, res.out[-3000:]))
    consumed, total = map(int, done[-1].split()[1:3])
    mm = res.json_lines("MM ")
    if consumed != total:
        raise vf.Infra("trace %s consumed only %d of %d events (recorder contract broken or spec stuck); last MM: %s\n%s"
                       % (trace_file, consumed, total, mm[-3:], res.out[-1500:]))
    return res, mm, total


def run_shards(work, module, shard_jobs, timeout=900, keep=False):
    """shard_jobs: list of dict(name, record=callable(path)->None, env=dict). Runs them in parallel."""
    out = ShardResult()

    def one(job):
        path = os.path.join(work, "trace-%s.ndjson" % job["name"])
        try:
            job["record"](path)
        except vf.EnginePanic as e:
            # the recorder process was killed by a panic inside the engine (e.g. in a driver goroutine)
            m = {"l": 0, "t": 0, "rule": "PANIC/engine-process-died", "class": "", "detail": {"stderr": str(e)[-1500:]}, "shard": job["name"], "file": path}
            if job.get("args") is not None:
                m["args"] = job["args"]
            open(path, "a").close()
            return dict(mm=[m], total=0, traces=0, states=0, trans=0, wall=0.0, first=None, path=path, kinds={})
        res, mm, total = validate_trace(work, module, path, timeout=timeout, env_extra=job.get("env"), heap=job.get("heap", "1g"))
        for m in mm:
            m["shard"] = job["name"]
            m["file"] = path
            if job.get("args") is not None:
                m["args"] = job["args"]
        # samples + counting
        traces = 0
        first = None
        kinds = {}
        with open(path) as f:
            for line in f:
                if not line.strip():
                    continue
                ev = json.loads(line)
                kinds[ev.get("ev", "?")] = kinds.get(ev.get("ev", "?"), 0) + 1
                if ev.get("ev") in ("load", "transp", "uciPosition", "reset"):
                    traces += 1
                if first is None:
                    first = ev
        return dict(mm=mm, total=total, traces=traces, states=res.distinct, trans=res.generated, wall=res.wall,
                    first=first, path=path, kinds=kinds)

    results = vf.pmap(one, shard_jobs)
    for r in results:
        out.mm += r["mm"]
        out.events += r["total"]
        out.traces += r["traces"]
        out.states += r["states"]
        out.transitions += r["trans"]
        out.tlc_wall += r["wall"]
        out.files.append(r["path"])
        for k, v in r["kinds"].items():
            out.counts[k] = out.counts.get(k, 0) + v
        if r["first"] is not None and len(out.samples) < 2:
            out.samples.append(r["first"])
    return out


def script_of(trace_file, l):
    """Reconstruct the driver inputs (FEN + operations) that lead to trace line l (1-based)."""
    evs = vf.read_ndjson(trace_file)
    l = min(l, len(evs))
    i = l - 1
    while i > 0 and evs[i]["ev"] != "load":
        i -= 1
    if evs[l - 1]["ev"] in ("transp", "uciPosition", "uciRep", "uciPerft", "uciMoves", "zkeys"):
        return {"event": evs[l - 1]}
    ops = []
    for ev in evs[i + 1:l]:
        if ev["ev"] in ("make", "undo"):
            ops.append({"op": ev["ev"], "m": ev.get("m", 0)})
        else:
            ops.append({"op": ev["ev"]})
    return {"fen": evs[i].get("fen"), "ops": ops}


def trim(ev, n=600):
    s = json.dumps(ev)
    return ev if len(s) <= n else json.loads(json.dumps({k: v for k, v in ev.items() if k not in ("pl2", "pl3", "hashes", "acc")}))
