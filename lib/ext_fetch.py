"""Extension: how a tuner client obtains the data file (client.obtainEPD). TunerFetch.tla is model checked (the client
only goes on with a byte-identical copy; it always ends; exactly the files without empty lines and with a final
newline can be obtained - the documented format allows empty lines: design observation O4, required to fail);
TunerFetchTrace.tla judges the real loop, run in child processes. Rules F/...."""
import json
import os
import time

import tracecheck as tc
import vf

CFG = "SPECIFICATION Spec\nCONSTANTS MaxLines = %d RetryCount = 10\nINVARIANTS %s\n%s"


def run(tier):
    t0 = time.time()
    with vf.scratch("verif-ext-fetch-") as work:
        vf.stage_specs(work)
        bins = vf.build_tuner_harness(work, work, ["rec-fetch"], with_server=True)
        open(os.path.join(work, "TunerFetchMC.tla"), "w").write("---- MODULE TunerFetchMC ----\nEXTENDS TunerFetch\n====\n")
        ml = 3 if tier == "quick" else 4
        r = vf.tlc(work, "TunerFetchMC", CFG % (ml, "ReturnsOnlyWithTheFile ReproducibleIffClean CleanIsObtained", "PROPERTIES Ends\n"), timeout=1800, workers=4, heap="2g")
        vf.tlc_must_pass(r, "TunerFetch.tla")
        mdl = dict(constants="all files of up to %d lines (empty / non-empty, with and without final newline) x all local files" % ml, distinct=r.distinct)
        r2 = vf.tlc(work, "TunerFetchMC", CFG % (ml, "FormatIsObtained", ""), timeout=1800, workers=4, heap="2g")
        if "Invariant FormatIsObtained is violated" not in r2.out:
            raise vf.Infra("expected FormatIsObtained to be violated (design observation O4):\n" + r2.out[-1500:])
        mdl["file_with_an_empty_line_cannot_be_obtained"] = True
        nsh = 4

        def job(i):
            args = ["-seed", str(vf.seed() * 211 + i), "-n", str(40 if tier == "quick" else 300)]

            def record(path, args=args):
                vf.run([bins["rec-fetch"]] + args + ["-out", path], timeout=1800, env=dict(os.environ, TMPDIR=work))
            return dict(name="fetch-%d" % i, record=record, args=args)
        # the trace module has constants: validate with a config that sets them
        out = tc.ShardResult()
        paths = []
        for i in range(nsh):
            j = job(i)
            path = os.path.join(work, "trace-%s.ndjson" % j["name"])
            j["record"](path)
            paths.append((path, j["args"]))

        def val(pa):
            path, args = pa
            res, mm, total = tc.validate_trace(work, "TunerFetchTrace", path, cfg=tc.TRACE_CFG + "CONSTANTS MaxLines = 4 RetryCount = 10\n")
            for m in mm:
                m["args"] = args
            return mm, total
        rs = vf.pmap(val, paths)
        bad = [m for mm, _ in rs for m in mm if m["rule"].startswith("F/")]
        events = sum(t for _, t in rs)
        os.makedirs(os.path.join(vf.VERIF, "extensions"), exist_ok=True)
        rep = dict(extension="tuner-data-file-download", tier=tier, spec=["TunerFetch.tla", "TunerFetchTrace.tla"], model=mdl,
                   scenarios=events, mismatches=len(bad), first_mismatches=[{k: v for k, v in m.items() if k != "file"} for m in bad[:5]],
                   wall_s=round(time.time() - t0, 1))
        with open(os.path.join(vf.VERIF, "extensions", "fetch.json"), "w") as f:
            json.dump(rep, f, indent=1, default=str)
        for m in bad[:5]:
            print("EXT-MISMATCH extension=tuner-data-file-download rule=%s args=%s" % (m["rule"], " ".join(m.get("args", []))))
        return 1 if bad else 0
