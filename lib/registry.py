"""Property id -> check function(prop, tier, replay) -> exit code."""
import checks_board

CHECKS = {}
for _p in ("C01", "C02", "C03", "C04", "C05", "C09", "C10"):
    CHECKS[_p] = checks_board.run

import checks_misc
CHECKS["C12"] = checks_misc.c12
CHECKS["C14"] = checks_misc.c14
import checks_tt
CHECKS["C15"] = checks_tt.c15
import checks_search
for _p in ("C06", "C07", "C08"):
    CHECKS[_p] = checks_search.run
import checks_heur
for _p in ("C16", "C17", "C18"):
    CHECKS[_p] = checks_heur.run
import checks_tuner
for _p in ("C19", "C20"):
    CHECKS[_p] = checks_tuner.run
import checks_uci
CHECKS["C13"] = checks_uci.c13
import checks_fen
CHECKS["C11"] = checks_fen.c11
