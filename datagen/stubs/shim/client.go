package shim

// Stand-in for the gRPC client of tools/datagen/shim (client.go / server.go need
// google.golang.org/grpc, which is not available offline). config.go and game.go - the types the
// game loop works with - are the repository's own files, copied next to this one. The method set
// is the one client/client.go uses.

import "github.com/paulsonkoly/chess-3/board"

// Harness is what the stand-in talks to instead of a server.
type Harness struct {
	Cfg      Config
	Openings []*board.Board
	Games    []*Game
}

type Client struct{ H *Harness }

func NewClient(host string, port int) (Client, error) { return Client{H: &Harness{}}, nil }

func (c *Client) Close() error { return nil }

func (c *Client) RequestConfig() (Config, error) { return c.H.Cfg, nil }

func (c *Client) RequestOpening() (*board.Board, error) {
	if len(c.H.Openings) == 0 {
		return nil, nil
	}
	b := c.H.Openings[0]
	c.H.Openings = c.H.Openings[1:]
	return b, nil
}

func (c *Client) RegisterGame(g *Game) error {
	c.H.Games = append(c.H.Games, g)
	return nil
}
