// rec-datagen runs the data generator's self-play loop (tools/datagen/client: Generator.Game,
// unmodified) with the real search against a stand-in for the gRPC client and records every game
// - configuration, opening, every (FEN, best move, score), label - for DatagenTrace.tla.
package main

import (
	"bufio"
	"encoding/json"
	"flag"
	"fmt"
	"math/rand"
	"os"
	"strings"

	"github.com/paulsonkoly/chess-3/board"
	"github.com/paulsonkoly/chess-3/move"
	"github.com/paulsonkoly/chess-3/movegen"
	"github.com/paulsonkoly/chess-3/tools/datagen/client"
	"github.com/paulsonkoly/chess-3/tools/datagen/shim"
	gen "github.com/paulsonkoly/chess-3/tools/datagen/verifgen"
)

type Pos struct {
	Bd  []int `json:"bd"`
	Stm int   `json:"stm"`
	Cr  int   `json:"cr"`
	Ep  int   `json:"ep"`
	Hm  int   `json:"hm"`
	Fm  int   `json:"fm"`
}
type P struct {
	Fen   string `json:"fen"`
	Bm    int    `json:"bm"`
	Score int    `json:"score"`
	Pos   *Pos   `json:"pos"`
}
type Ev struct {
	Ev      string      `json:"ev"`
	T       int         `json:"t"`
	Cfg     shim.Config `json:"cfg"`
	Opening string      `json:"opening"`
	Ps      []P         `json:"ps"`
	Wdl     int         `json:"wdl"`
	Msg     string      `json:"msg,omitempty"`
}

func playable(b *board.Board, ms *move.Store) []move.Move {
	ms.Push()
	defer ms.Pop()
	movegen.GenNoisy(ms, b)
	movegen.GenNotNoisy(ms, b)
	var out []move.Move
	for _, wm := range ms.Frame() {
		m := wm.Move
		r := b.MakeMove(m)
		ok := !b.InCheck(b.STM.Flip())
		b.UndoMove(m, r)
		if ok {
			out = append(out, m)
		}
	}
	return out
}

func main() {
	out := flag.String("out", "", "")
	seed := flag.Int64("seed", 1, "")
	n := flag.Int("n", 20, "games")
	corpus := flag.String("corpus", "", "FEN file with openings (besides random start-position play-outs)")
	flag.Parse()
	rng := rand.New(rand.NewSource(*seed))
	var fens []string
	if *corpus != "" {
		data, err := os.ReadFile(*corpus)
		if err != nil {
			panic(err)
		}
		for _, l := range strings.Split(string(data), "\n") {
			if l = strings.TrimSpace(l); l != "" {
				fens = append(fens, l)
			}
		}
	}
	f, err := os.Create(*out)
	if err != nil {
		panic(err)
	}
	defer f.Close()
	w := bufio.NewWriterSize(f, 1<<20)
	defer w.Flush()
	enc := json.NewEncoder(w)
	ms := move.NewStore()
	g := client.NewGenerator()
	for t := 1; t <= *n; t++ {
		// the opening: the start position + random moves (as the server makes them), a corpus position, a sparse endgame
		var b *board.Board
		switch rng.Intn(4) {
		case 0:
			if len(fens) > 0 {
				b, _ = board.FromFEN(fens[rng.Intn(len(fens))])
			}
		case 1:
			b, _ = board.FromFEN(gen.SparseEndgame(rng))
		}
		if b == nil || b.InvalidPieceCount() || b.FiftyCnt > 60 {
			b = board.StartPos()
			for i := rng.Intn(14); i > 0; i-- {
				lm := playable(b, ms)
				if len(lm) == 0 {
					break
				}
				b.MakeMove(lm[rng.Intn(len(lm))])
			}
		}
		cfg := shim.Config{
			SoftNodes: 30 + rng.Intn(600), HardNodes: 8_000_000,
			Draw: rng.Intn(4) != 0, DrawAfter: rng.Intn(30), DrawMargin: []int{0, 5, 20, 50}[rng.Intn(4)], DrawCount: 1 + rng.Intn(5),
			Win: rng.Intn(4) != 0, WinAfter: rng.Intn(30), WinMargin: []int{100, 300, 600, 1500}[rng.Intn(4)], WinCount: 1 + rng.Intn(5),
		}
		if rng.Intn(5) == 0 {
			cfg.HardNodes = 200 + rng.Intn(2000) // searches cut off by the hard budget
		}
		opening := b.FEN()
		h := &shim.Harness{Cfg: cfg, Openings: []*board.Board{b}}
		ev := Ev{T: t, Cfg: cfg, Opening: opening}
		func() {
			defer func() {
				if x := recover(); x != nil {
					ev.Ev, ev.Msg = "dpanic", fmt.Sprint(x)
				}
			}()
			ok, err := g.Game(cfg, shim.Client{H: h})
			if !ok || err != nil || len(h.Games) != 1 {
				panic(fmt.Sprintf("harness: Game returned ok=%v err=%v games=%d", ok, err, len(h.Games)))
			}
			ev.Ev = "dgame"
			gm := h.Games[0]
			ev.Wdl = int(gm.WDL)
			for _, p := range gm.Positions {
				q := P{Fen: p.FEN, Bm: int(p.BM), Score: int(p.Score)}
				if bd, stm, cr, ep, hm, fm, ok := gen.ParseCanonFEN(p.FEN); ok {
					q.Pos = &Pos{bd, stm, cr, ep, hm, fm}
				}
				ev.Ps = append(ev.Ps, q)
			}
		}()
		if err := enc.Encode(ev); err != nil {
			panic(err)
		}
	}
}
