// Package gen generates positions and move sequences for the recorders.
// Nothing in here decides a verdict: the TLA+ specification re-checks the
// validity of everything generated (a slip here is an infrastructure error).
package gen

import (
	"bufio"
	"fmt"
	"math/rand"
	"os"
	"strings"
)

// ---- a tiny array board, independent of the engine, used only to keep generated positions valid

var df = [8]int{1, -1, 0, 0, 1, 1, -1, -1}
var dr = [8]int{0, 0, 1, -1, 1, -1, 1, -1}

func onBoard(f, r int) bool { return f >= 0 && f < 8 && r >= 0 && r < 8 }

// Attacked reports whether square s is attacked by colour by on bd (pieces 1..6 white, 9..14 black).
func Attacked(bd []int, s, by int) bool {
	f, r := s%8, s/8
	pc := func(t int) int { return 8*by + t }
	for _, d := range [][2]int{{1, 2}, {2, 1}, {-1, 2}, {-2, 1}, {1, -2}, {2, -1}, {-1, -2}, {-2, -1}} {
		if onBoard(f+d[0], r+d[1]) && bd[(r+d[1])*8+f+d[0]] == pc(2) {
			return true
		}
	}
	for i := 0; i < 8; i++ {
		if onBoard(f+df[i], r+dr[i]) && bd[(r+dr[i])*8+f+df[i]] == pc(6) {
			return true
		}
	}
	// pawns: a white pawn attacks upwards, so it stands one rank below s
	pr := r - 1
	if by == 1 {
		pr = r + 1
	}
	for _, pf := range []int{f - 1, f + 1} {
		if onBoard(pf, pr) && bd[pr*8+pf] == pc(1) {
			return true
		}
	}
	for i := 0; i < 8; i++ {
		cf, cr := f+df[i], r+dr[i]
		for onBoard(cf, cr) {
			p := bd[cr*8+cf]
			if p != 0 {
				if i < 4 && (p == pc(4) || p == pc(5)) {
					return true
				}
				if i >= 4 && (p == pc(3) || p == pc(5)) {
					return true
				}
				break
			}
			cf, cr = cf+df[i], cr+dr[i]
		}
	}
	return false
}

func kingSq(bd []int, c int) int {
	for s, p := range bd {
		if p == 8*c+6 {
			return s
		}
	}
	return -1
}

// EpCapturable: is there a legal en-passant capture onto ep for side stm?
func EpCapturable(bd []int, stm, ep int) bool {
	if ep < 0 {
		return false
	}
	f, r := ep%8, ep/8
	fromR := r - 1
	victim := ep - 8
	if stm == 1 {
		fromR = r + 1
		victim = ep + 8
	}
	for _, pf := range []int{f - 1, f + 1} {
		if !onBoard(pf, fromR) || bd[fromR*8+pf] != 8*stm+1 {
			continue
		}
		nb := append([]int(nil), bd...)
		nb[fromR*8+pf] = 0
		nb[victim] = 0
		nb[ep] = 8*stm + 1
		if !Attacked(nb, kingSq(nb, stm), 1-stm) {
			return true
		}
	}
	return false
}

var pcChar = map[int]byte{1: 'P', 2: 'N', 3: 'B', 4: 'R', 5: 'Q', 6: 'K', 9: 'p', 10: 'n', 11: 'b', 12: 'r', 13: 'q', 14: 'k'}

// FEN prints an array board position.
func FEN(bd []int, stm, cr, ep, hm, fm int) string {
	var sb strings.Builder
	for r := 7; r >= 0; r-- {
		run := 0
		for f := 0; f < 8; f++ {
			p := bd[r*8+f]
			if p == 0 {
				run++
				continue
			}
			if run > 0 {
				sb.WriteByte(byte('0' + run))
				run = 0
			}
			sb.WriteByte(pcChar[p])
		}
		if run > 0 {
			sb.WriteByte(byte('0' + run))
		}
		if r > 0 {
			sb.WriteByte('/')
		}
	}
	sb.WriteString([]string{" w ", " b "}[stm])
	if cr == 0 {
		sb.WriteByte('-')
	} else {
		for i, c := range "KQkq" {
			if cr&(1<<i) != 0 {
				sb.WriteRune(c)
			}
		}
	}
	if ep < 0 {
		sb.WriteString(" -")
	} else {
		fmt.Fprintf(&sb, " %c%c", 'a'+ep%8, '1'+ep/8)
	}
	fmt.Fprintf(&sb, " %d %d", hm, fm)
	return sb.String()
}

// Profile steers RandomValid.
type Profile struct {
	MinPieces, MaxPieces int  // non-king pieces
	PawnBias             int  // percent of pieces that are pawns
	NearKings            bool // cluster pieces around the kings (pins, double checks, blocks)
	RawEp                bool // keep an en-passant target even if no capture is legal
	Promoted             bool // allow counts only reachable by promotion (many queens etc.)
}

// RandomValid builds a random valid position (validity as stated in the properties' quantifier).
func RandomValid(rng *rand.Rand, pr Profile) string {
	for {
		bd := make([]int, 64)
		wk := rng.Intn(64)
		bk := rng.Intn(64)
		if abs(wk%8-bk%8) <= 1 && abs(wk/8-bk/8) <= 1 {
			continue
		}
		// castling-friendly king placement now and then
		if rng.Intn(4) == 0 {
			wk = 4
		}
		if rng.Intn(4) == 0 {
			bk = 60
		}
		if wk == bk || (abs(wk%8-bk%8) <= 1 && abs(wk/8-bk/8) <= 1) {
			continue
		}
		bd[wk], bd[bk] = 6, 14
		n := pr.MinPieces + rng.Intn(pr.MaxPieces-pr.MinPieces+1)
		cnt := [2][7]int{}
		for i := 0; i < n; i++ {
			c := rng.Intn(2)
			var t int
			if rng.Intn(100) < pr.PawnBias {
				t = 1
			} else {
				t = 2 + rng.Intn(4)
			}
			var s int
			if pr.NearKings && rng.Intn(3) != 0 {
				k := wk
				if rng.Intn(2) == 0 {
					k = bk
				}
				f, r := k%8+rng.Intn(7)-3, k/8+rng.Intn(7)-3
				if !onBoard(f, r) {
					continue
				}
				s = r*8 + f
			} else {
				s = rng.Intn(64)
			}
			if bd[s] != 0 {
				continue
			}
			if t == 1 && (s/8 == 0 || s/8 == 7) {
				continue
			}
			// piece counts reachable by promotion
			nc := cnt[c]
			nc[t]++
			extra := max(nc[2]-2, 0) + max(nc[3]-2, 0) + max(nc[4]-2, 0) + max(nc[5]-1, 0)
			if nc[1]+extra > 8 {
				continue
			}
			if !pr.Promoted && extra > 0 && rng.Intn(4) != 0 {
				continue
			}
			cnt[c] = nc
			bd[s] = 8*c + t
		}
		// rooks at home for castling rights sometimes
		if wk == 4 {
			for _, s := range []int{0, 7} {
				if bd[s] == 0 && rng.Intn(2) == 0 && cnt[0][4] < 2 {
					bd[s] = 4
					cnt[0][4]++
				}
			}
		}
		if bk == 60 {
			for _, s := range []int{56, 63} {
				if bd[s] == 0 && rng.Intn(2) == 0 && cnt[1][4] < 2 {
					bd[s] = 12
					cnt[1][4]++
				}
			}
		}
		stm := rng.Intn(2)
		if Attacked(bd, kingSq(bd, 1-stm), stm) {
			stm = 1 - stm
			if Attacked(bd, kingSq(bd, 1-stm), stm) {
				continue
			}
		}
		cr := 0
		if bd[4] == 6 {
			if bd[7] == 4 && rng.Intn(3) != 0 {
				cr |= 1
			}
			if bd[0] == 4 && rng.Intn(3) != 0 {
				cr |= 2
			}
		}
		if bd[60] == 14 {
			if bd[63] == 12 && rng.Intn(3) != 0 {
				cr |= 4
			}
			if bd[56] == 12 && rng.Intn(3) != 0 {
				cr |= 8
			}
		}
		// en-passant target: directly behind an enemy pawn that could just have double-pushed
		ep := -1
		var cands []int
		for f := 0; f < 8; f++ {
			if stm == 0 && bd[4*8+f] == 9 && bd[5*8+f] == 0 && bd[6*8+f] == 0 {
				cands = append(cands, 5*8+f)
			}
			if stm == 1 && bd[3*8+f] == 1 && bd[2*8+f] == 0 && bd[1*8+f] == 0 {
				cands = append(cands, 2*8+f)
			}
		}
		if len(cands) > 0 && rng.Intn(2) == 0 {
			e := cands[rng.Intn(len(cands))]
			// the double push must not have left the pusher's own king... (it is the side not to move: already checked)
			if pr.RawEp || EpCapturable(bd, stm, e) {
				ep = e
			}
		}
		hm := 0
		if rng.Intn(3) == 0 {
			hm = rng.Intn(100)
		}
		if ep >= 0 {
			hm = 0
		}
		fm := 1 + rng.Intn(120)
		if rng.Intn(12) == 0 {
			// counter boundaries (a FEN may carry any positive fullmove number)
			fm = []int{255, 256, 32766, 32767, 32768, 65535, 65536, 999999, 1000000000}[rng.Intn(9)]
		}
		return FEN(bd, stm, cr, ep, hm, fm)
	}
}

// CastleStress builds positions around castling: kings and rooks at home with rights, extra heavy
// pieces aimed at the corners and the squares the king crosses, so that rook trades on home squares,
// attacked transit squares and lost/kept rights are all frequent within a few plies.
func CastleStress(rng *rand.Rand) string {
	for {
		bd := make([]int, 64)
		bd[4], bd[60] = 6, 14
		for _, c := range [][2]int{{0, 4}, {7, 4}, {56, 12}, {63, 12}} {
			if rng.Intn(8) != 0 {
				bd[c[0]] = c[1]
			}
		}
		heavy := []int{4, 4, 5, 3, 2}
		for c := 0; c < 2; c++ {
			for i, n := 0, rng.Intn(4); i < n; i++ {
				var s int
				switch rng.Intn(4) {
				case 0:
					s = rng.Intn(8)*8 + []int{0, 7}[rng.Intn(2)] // a/h file
				case 1:
					s = []int{0, 7}[rng.Intn(2)]*8 + rng.Intn(8) // back ranks
				case 2:
					s = []int{1, 6}[rng.Intn(2)]*8 + rng.Intn(8) // second ranks
				default:
					s = rng.Intn(64)
				}
				if bd[s] != 0 {
					continue
				}
				bd[s] = 8*c + heavy[rng.Intn(len(heavy))]
			}
			for i, n := 0, rng.Intn(4); i < n; i++ {
				s := 8 + rng.Intn(48)
				if bd[s] == 0 {
					bd[s] = 8*c + 1
				}
			}
		}
		cntOK := true
		for c := 0; c < 2; c++ {
			var n [7]int
			for _, p := range bd {
				if p != 0 && p/8 == c {
					n[p%8]++
				}
			}
			if n[1]+max(n[2]-2, 0)+max(n[3]-2, 0)+max(n[4]-2, 0)+max(n[5]-1, 0) > 8 {
				cntOK = false
			}
		}
		if !cntOK {
			continue
		}
		stm := rng.Intn(2)
		if Attacked(bd, kingSq(bd, 1-stm), stm) {
			stm = 1 - stm
			if Attacked(bd, kingSq(bd, 1-stm), stm) {
				continue
			}
		}
		cr := 0
		for i, c := range [][2]int{{7, 4}, {0, 4}, {63, 12}, {56, 12}} {
			if bd[c[0]] == c[1] && rng.Intn(10) != 0 {
				cr |= 1 << i
			}
		}
		return FEN(bd, stm, cr, -1, rng.Intn(20), 1+rng.Intn(60))
	}
}

// EpStress builds a position one ply before a double pawn push that lands next to one or two enemy
// pawns, with the enemy king lined up with those pawns or with the pusher's origin square and the
// pusher's sliders behind them: pinned capturers (file, rank, diagonal), both-pawns-on-the-rank pins,
// checks discovered through the vacated square, and the double push giving check itself.
// It returns the FEN and the from/to squares of the double push.
func EpStress(rng *rand.Rand) (string, int, int) {
	fen, mv := EpStress2(rng)
	return fen, mv[0], mv[1]
}

// EpStress2 is EpStress, and in a third of the cases it also prepares a second capturable double push
// as the reply (two consecutive plies that both set an en-passant target). It returns the FEN and the
// forced moves as from,to pairs.
func EpStress2(rng *rand.Rand) (string, []int) {
	for {
		bd := make([]int, 64)
		c := rng.Intn(2) // pusher
		f := rng.Intn(8)
		homeR, toR, dir := 1, 3, 1
		if c == 1 {
			homeR, toR, dir = 6, 4, -1
		}
		from, mid, to := homeR*8+f, (homeR+dir)*8+f, toR*8+f
		bd[from] = 8*c + 1
		var caps []int
		for _, nf := range []int{f - 1, f + 1} {
			if nf >= 0 && nf < 8 && rng.Intn(4) != 0 {
				bd[toR*8+nf] = 8*(1-c) + 1
				caps = append(caps, toR*8+nf)
			}
		}
		if len(caps) == 0 {
			continue
		}
		// enemy king: lined up with a capturer, with the origin square, or with the ep square
		anchor := caps[rng.Intn(len(caps))]
		switch rng.Intn(4) {
		case 0:
			anchor = from
		case 1:
			anchor = mid
		}
		d := rng.Intn(8)
		af, ar := anchor%8, anchor/8
		var line []int
		for k := 1; k < 8; k++ {
			nf, nr := af+k*df[d], ar+k*dr[d]
			if !onBoard(nf, nr) {
				break
			}
			line = append(line, nr*8+nf)
		}
		var back []int
		for k := 1; k < 8; k++ {
			nf, nr := af-k*df[d], ar-k*dr[d]
			if !onBoard(nf, nr) {
				break
			}
			back = append(back, nr*8+nf)
		}
		if len(line) == 0 || len(back) == 0 {
			continue
		}
		ek := line[rng.Intn(len(line))]
		sl := back[rng.Intn(len(back))]
		if bd[ek] != 0 || bd[sl] != 0 || ek == mid || ek == to || sl == mid || sl == to {
			continue
		}
		bd[ek] = 8*(1-c) + 6
		slider := 5
		if rng.Intn(2) == 0 {
			if d < 4 {
				slider = 4
			} else {
				slider = 3
			}
		}
		bd[sl] = 8*c + slider
		// pusher's king anywhere not adjacent to the enemy king
		ok := false
		for try := 0; try < 20; try++ {
			k := rng.Intn(64)
			if bd[k] == 0 && k != mid && k != to && !(abs(k%8-ek%8) <= 1 && abs(k/8-ek/8) <= 1) {
				bd[k] = 8*c + 6
				ok = true
				break
			}
		}
		if !ok {
			continue
		}
		// some random extras
		for i, n := 0, rng.Intn(6); i < n; i++ {
			s := rng.Intn(64)
			if bd[s] != 0 || s == mid || s == to {
				continue
			}
			t := 1 + rng.Intn(5)
			if t == 1 && (s/8 == 0 || s/8 == 7) {
				continue
			}
			bd[s] = 8*rng.Intn(2) + t
		}
		forced := []int{from, to}
		if rng.Intn(3) == 0 {
			// reply: opponent double push landing next to one of the pusher's pawns
			oh, ot, od := 6, 4, -1
			if c == 1 {
				oh, ot, od = 1, 3, 1
			}
			g := rng.Intn(8)
			nf := g + []int{-1, 1}[rng.Intn(2)]
			if nf >= 0 && nf < 8 && g != f && bd[oh*8+g] == 0 && bd[(oh+od)*8+g] == 0 && bd[ot*8+g] == 0 && bd[ot*8+nf] == 0 &&
				(oh+od)*8+g != mid && ot*8+g != to && ot*8+nf != to && ot*8+nf != mid {
				bd[oh*8+g] = 8*(1-c) + 1
				bd[ot*8+nf] = 8*c + 1
				forced = append(forced, oh*8+g, ot*8+g)
			}
		}
		if Attacked(bd, kingSq(bd, 1-c), c) {
			continue
		}
		return FEN(bd, c, 0, -1, rng.Intn(30), 1+rng.Intn(60)), forced
	}
}

func kingHasSafeMove(bd []int, c int) bool {
	k := kingSq(bd, c)
	for i := 0; i < 8; i++ {
		f, r := k%8+df[i], k/8+dr[i]
		if !onBoard(f, r) {
			continue
		}
		t := r*8 + f
		if bd[t] != 0 && bd[t]/8 == c {
			continue
		}
		nb := append([]int(nil), bd...)
		nb[k] = 0
		nb[t] = 8*c + 6
		if !Attacked(nb, t, 1-c) {
			return true
		}
	}
	return false
}

func countsOK(bd []int) bool {
	for c := 0; c < 2; c++ {
		var n [7]int
		for _, p := range bd {
			if p != 0 && p/8 == c {
				n[p%8]++
			}
		}
		if n[6] != 1 || n[1]+max(n[2]-2, 0)+max(n[3]-2, 0)+max(n[4]-2, 0)+max(n[5]-1, 0) > 8 {
			return false
		}
	}
	return true
}

// MaxLenFEN builds valid positions whose FEN text has the longest possible placement field (71
// characters): all 32 men on the board, every rank holding 4 men with single empty squares between.
func MaxLenFEN(rng *rand.Rand) string {
	for {
		bd := make([]int, 64)
		var back, rest []int
		pcs := []int{6, 5, 4, 4, 3, 3, 2, 2, 14, 13, 12, 12, 11, 11, 10, 10}
		rng.Shuffle(len(pcs), func(i, j int) { pcs[i], pcs[j] = pcs[j], pcs[i] })
		back = pcs[:8]
		rest = append(rest, pcs[8:]...)
		for i := 0; i < 8; i++ {
			rest = append(rest, 1, 9)
		}
		rng.Shuffle(len(rest), func(i, j int) { rest[i], rest[j] = rest[j], rest[i] })
		for r := 0; r < 8; r++ {
			off := rng.Intn(2)
			for k := 0; k < 4; k++ {
				sq := r*8 + off + 2*k
				if r == 0 || r == 7 {
					bd[sq], back = back[0], back[1:]
				} else {
					bd[sq], rest = rest[0], rest[1:]
				}
			}
		}
		wk, bk := kingSq(bd, 0), kingSq(bd, 1)
		if abs(wk%8-bk%8) <= 1 && abs(wk/8-bk/8) <= 1 {
			continue
		}
		stm := rng.Intn(2)
		if Attacked(bd, kingSq(bd, 1-stm), stm) {
			continue
		}
		return FEN(bd, stm, 0, -1, rng.Intn(60), 1+rng.Intn(200))
	}
}

// transform applies a random symmetry of the rules to a white-to-move construction: file mirror and/or
// colour flip (ranks reversed, colours swapped, side to move swapped).
func transform(rng *rand.Rand, bd []int, stm int) ([]int, int) {
	if rng.Intn(2) == 0 {
		nb := make([]int, 64)
		for s, p := range bd {
			nb[s/8*8+7-s%8] = p
		}
		bd = nb
	}
	if rng.Intn(2) == 0 {
		nb := make([]int, 64)
		for s, p := range bd {
			if p != 0 {
				nb[(7-s/8)*8+s%8] = p ^ 8
			}
		}
		bd, stm = nb, 1-stm
	}
	return bd, stm
}

// NoQuiet builds positions in which the side to move has NO quiet pseudo-legal move at all - king boxed in
// by its own men in a corner, pawns blocked, the boxed-in piece able only to capture - but has captures,
// most of them losing material. Everything a move orderer defers "behind the quiet moves" is then all there is.
func NoQuiet(rng *rand.Rand) string {
	for {
		bd := make([]int, 64)
		sq := func(f, r int) int { return r*8 + f }
		blackPiece := func(pawnOK bool) int {
			if pawnOK && rng.Intn(2) == 0 {
				return 9
			}
			return []int{10, 11, 12, 13}[rng.Intn(4)]
		}
		bd[sq(7, 0)] = 6 // Kh1
		bd[sq(6, 1)], bd[sq(7, 1)] = 1, 1
		bd[sq(6, 2)], bd[sq(7, 2)] = blackPiece(true), blackPiece(true)
		switch rng.Intn(3) {
		case 0: // Bg1: f2 taken by an enemy man
			bd[sq(6, 0)] = 3
			bd[sq(5, 1)] = blackPiece(true)
		case 1: // Rg1: f1 taken by an enemy piece
			bd[sq(6, 0)] = 4
			bd[sq(5, 0)] = blackPiece(false)
		default: // Ng1: e2, f3 (and h3) taken by enemy men
			bd[sq(6, 0)] = 2
			bd[sq(4, 1)] = blackPiece(true)
			bd[sq(5, 2)] = blackPiece(true)
		}
		// locked pawn pairs elsewhere: no quiet move either
		for f := 0; f < 5; f++ {
			if rng.Intn(3) == 0 {
				r := 1 + rng.Intn(5)
				if bd[sq(f, r)] == 0 && bd[sq(f, r+1)] == 0 && r+1 <= 6 {
					bd[sq(f, r)], bd[sq(f, r+1)] = 1, 9
				}
			}
		}
		// the other king, and a few more enemy men
		bk := rng.Intn(64)
		if bd[bk] != 0 || (abs(bk%8-7) <= 1 && bk/8 <= 1) {
			continue
		}
		bd[bk] = 14
		for i := rng.Intn(3); i > 0; i-- {
			s := rng.Intn(64)
			if bd[s] == 0 {
				p := blackPiece(true)
				if p == 9 && (s/8 == 0 || s/8 == 7) {
					continue
				}
				bd[s] = p
			}
		}
		if !countsOK(bd) || Attacked(bd, bk, 0) {
			continue
		}
		nb, stm := transform(rng, bd, 0)
		return FEN(nb, stm, 0, -1, rng.Intn(30), 1+rng.Intn(80))
	}
}

// SparseEndgame builds few-men positions of the material classes for which evaluation functions carry
// special rules (insufficient material with any number of minor pieces, bishop and rook pawns against the
// bare king, stacked pawns, minor piece endings), the bare king biased towards the corners.
func SparseEndgame(rng *rand.Rand) string {
	for {
		bd := make([]int, 64)
		c := rng.Intn(2) // the stronger side
		var strong, weak []int
		pawnFile := -1
		switch rng.Intn(7) {
		case 0: // bishop + pawns on one rook file
			strong = []int{3}
			pawnFile = []int{0, 7}[rng.Intn(2)]
		case 1: // knight or bishop + pawns on one file
			strong = []int{[]int{2, 3}[rng.Intn(2)]}
			pawnFile = rng.Intn(8)
		case 2: // pawns on one file only
			pawnFile = rng.Intn(8)
		case 3: // any number of minor pieces on both sides, no pawns
			for i := rng.Intn(7); i > 0; i-- {
				strong = append(strong, 3)
			}
			for i := rng.Intn(4); i > 0; i-- {
				strong = append(strong, 2)
			}
			for i := rng.Intn(3); i > 0; i-- {
				weak = append(weak, []int{2, 3}[rng.Intn(2)])
			}
		case 4: // knight + bishop
			strong = []int{2, 3}
		case 5: // heavy piece against minor pieces
			strong = []int{[]int{4, 5}[rng.Intn(2)]}
			for i := rng.Intn(3); i > 0; i-- {
				weak = append(weak, []int{2, 3, 4}[rng.Intn(3)])
			}
		default: // a pawn or two each
			pawnFile = rng.Intn(8)
			weak = []int{1}
		}
		place := func(p int) bool {
			for try := 0; try < 50; try++ {
				s := rng.Intn(64)
				if bd[s] != 0 || (p%8 == 1 && (s/8 == 0 || s/8 == 7)) {
					continue
				}
				bd[s] = p
				return true
			}
			return false
		}
		// kings: the weaker one near a corner half of the time
		wk := rng.Intn(64)
		if rng.Intn(2) == 0 {
			f, r := rng.Intn(2), rng.Intn(2) // within one of a corner
			if rng.Intn(2) == 0 {
				f = 7 - f
			}
			if rng.Intn(2) == 0 {
				r = 7 - r
			}
			wk = r*8 + f
		}
		sk := rng.Intn(64)
		if wk < 0 || wk > 63 || wk == sk || (abs(wk%8-sk%8) <= 1 && abs(wk/8-sk/8) <= 1) {
			continue
		}
		bd[sk], bd[wk] = 8*c+6, 8*(1-c)+6
		ok := true
		if pawnFile >= 0 {
			for i := 1 + rng.Intn(3); i > 0; i-- {
				r := 1 + rng.Intn(6)
				if rng.Intn(3) == 0 {
					r = []int{6, 1}[c] // about to promote
				}
				if bd[r*8+pawnFile] == 0 {
					bd[r*8+pawnFile] = 8*c + 1
				}
			}
		}
		for _, p := range strong {
			ok = ok && place(8*c+p)
		}
		for _, p := range weak {
			ok = ok && place(8*(1-c)+p)
		}
		if !ok || !countsOK(bd) {
			continue
		}
		stm := rng.Intn(2)
		if Attacked(bd, kingSq(bd, 1-stm), stm) {
			stm = 1 - stm
			if Attacked(bd, kingSq(bd, 1-stm), stm) {
				continue
			}
		}
		return FEN(bd, stm, 0, -1, rng.Intn(50), 1+rng.Intn(90))
	}
}

// CornerTrade builds positions in which a rook standing on its home corner, castling right intact, can be
// captured by an enemy rook right now and the capturer can be taken back (by a minor piece, or by a second
// rook standing between king and corner), the squares between king and corner being empty afterwards: the bookkeeping of the right lost "by capture on the home square"
// is then all that stands between the king and an impossible castling move.
func CornerTrade(rng *rand.Rand) string {
	for {
		bd := make([]int, 64)
		sq := func(f, r int) int { return r*8 + f }
		cf := []int{0, 7}[rng.Intn(2)] // corner file
		bd[sq(4, 7)] = 14
		bd[sq(cf, 7)] = 12
		cr := 8 // q
		if cf == 7 {
			cr = 4 // k
		}
		if rng.Intn(2) == 0 { // the other rook too
			bd[sq(7-cf, 7)] = 12
			cr = 12
		}
		// the piece that takes back
		dir := 1
		if cf == 7 {
			dir = -1
		}
		if rng.Intn(2) == 0 {
			// a second rook between king and corner: after the trade it stands on the corner itself
			bd[sq(cf+(1+rng.Intn(3-cf/7))*dir, 7)] = 12
		} else if rng.Intn(3) == 0 {
			k := [][2]int{{cf + dir, 5}, {cf + 2*dir, 6}}[rng.Intn(2)]
			bd[sq(k[0], k[1])] = 10
		} else {
			d := 1 + rng.Intn(4)
			bd[sq(cf+d*dir, 7-d)] = 11
		}
		// the capturer: a rook on the corner file, or (one time in four) the enemy KING standing next to the corner
		wr := rng.Intn(6)
		if bd[sq(cf, wr)] != 0 {
			continue
		}
		kingTakes := rng.Intn(4) == 0
		if !kingTakes {
			bd[sq(cf, wr)] = 4
		}
		wcr := 0
		wk := sq(6-rng.Intn(5), 0)
		if kingTakes {
			wk = [][]int{{sq(0, 6), sq(1, 6)}, {sq(7, 6), sq(6, 6)}}[cf/7][rng.Intn(2)]
		} else if rng.Intn(3) == 0 {
			wk = sq(4, 0)
			if wr == 0 {
				wcr = []int{2, 1}[cf/7]
			}
		}
		if bd[wk] != 0 {
			continue
		}
		bd[wk] = 6
		// some furniture on the middle files, nothing on the corner file or the back rank
		for i := rng.Intn(8); i > 0; i-- {
			f, r := 1+rng.Intn(6), 1+rng.Intn(6)
			if bd[sq(f, r)] == 0 {
				bd[sq(f, r)] = []int{1, 9, 1, 9, 2, 10, 3, 5, 13}[rng.Intn(9)]
			}
		}
		// the diagonal of the bishop must stay open
		open := true
		for d := 1; d <= 4; d++ {
			s := sq(cf+d*dir, 7-d)
			if bd[s] == 11 {
				break
			}
			if bd[s] != 0 {
				open = false
			}
		}
		if !open || !countsOK(bd) || Attacked(bd, sq(4, 7), 0) {
			continue
		}
		stm := 0
		if rng.Intn(2) == 0 { // colours swapped
			nb := make([]int, 64)
			for s, p := range bd {
				if p != 0 {
					nb[(7-s/8)*8+s%8] = p ^ 8
				}
			}
			bd, stm = nb, 1
			cr, wcr = wcr<<2, cr>>2
		}
		return FEN(bd, stm, cr|wcr, -1, rng.Intn(20), 1+rng.Intn(60))
	}
}

// DoublePushBlock: the king is in check by a slider whose line crosses the FOURTH rank of a file on which the
// side to move has a pawn at home with a friendly pawn directly in front of it (so no double push), the front
// pawn itself pinned to the king (so it may not step onto the line either): a mate, unless something else helps.
func DoublePushBlock(rng *rand.Rand) string {
	for {
		bd := make([]int, 64)
		sq := func(f, r int) int { return r*8 + f }
		f := 1 + rng.Intn(5)
		bd[sq(f, 1)], bd[sq(f, 2)] = 1, 1
		var k int
		if rng.Intn(2) == 0 {
			// king beside the front pawn: pinned along the third rank, checked along the diagonal through (f,4th)
			k = sq(f-1, 2)
			x := f + 1 + rng.Intn(7-f)
			bd[sq(x, 2)] = []int{12, 13}[rng.Intn(2)]
			bd[sq(f+1, 4)] = []int{11, 13}[rng.Intn(2)]
		} else {
			// king beside the fourth-rank square: checked along the fourth rank, front pawn pinned on the diagonal
			k = sq(f-1, 3)
			x := f + 1 + rng.Intn(7-f)
			bd[sq(x, 3)] = []int{12, 13}[rng.Intn(2)]
			if rng.Intn(2) == 0 || f+2 > 7 {
				bd[sq(f+1, 1)] = []int{11, 13}[rng.Intn(2)]
			} else {
				bd[sq(f+2, 0)] = []int{11, 13}[rng.Intn(2)]
			}
		}
		bd[k] = 6
		ek := rng.Intn(64)
		if bd[ek] != 0 || (abs(ek%8-k%8) <= 1 && abs(ek/8-k/8) <= 1) {
			continue
		}
		bd[ek] = 14
		for i := 0; i < 7 && kingHasSafeMove(bd, 0); i++ {
			s := rng.Intn(64)
			if bd[s] == 0 && s != sq(f, 3) {
				bd[s] = []int{13, 12, 11, 10}[rng.Intn(4)]
			}
		}
		// now and then a helper that may or may not save the day
		if rng.Intn(3) == 0 {
			s := rng.Intn(64)
			if bd[s] == 0 && s != sq(f, 3) {
				bd[s] = []int{2, 3, 1}[rng.Intn(3)]
				if bd[s] == 1 && (s/8 == 0 || s/8 == 7) {
					bd[s] = 2
				}
			}
		}
		if kingHasSafeMove(bd, 0) || !countsOK(bd) || Attacked(bd, ek, 0) || !Attacked(bd, k, 1) {
			continue
		}
		nb, stm := transform(rng, bd, 0)
		return FEN(nb, stm, 0, -1, rng.Intn(20), 1+rng.Intn(60))
	}
}

// EpInterpose: the side to move is in check by a slider whose line runs through the en-passant target square, its
// king has no safe square, and a pawn can capture en passant - landing on that line. Whether this is mate hinges on
// that capture (and on whether it is legal: the target is recorded only if it is).
func EpInterpose(rng *rand.Rand) string {
	for {
		bd := make([]int, 64)
		c := rng.Intn(2) // the side to move
		f := rng.Intn(8)
		toR, epR := 4, 5 // c = white captures a black pawn on the fifth rank, target on the sixth
		if c == 1 {
			toR, epR = 3, 2
		}
		bd[toR*8+f] = 8*(1-c) + 1
		nc := 0
		for _, nf := range []int{f - 1, f + 1} {
			if nf >= 0 && nf < 8 && rng.Intn(3) != 0 {
				bd[toR*8+nf] = 8*c + 1
				nc++
			}
		}
		if nc == 0 {
			continue
		}
		// a line through the target square: the target's rank or one of its diagonals
		d := []int{0, 4, 5, 6, 7}[rng.Intn(5)] // east, and the four diagonals (the opposite ray is the other half)
		ep := epR*8 + f
		kn, sn := 1+rng.Intn(3), 1+rng.Intn(4)
		kf, kr := f-kn*df[d], epR-kn*dr[d]
		sf, sr := f+sn*df[d], epR+sn*dr[d]
		if !onBoard(kf, kr) || !onBoard(sf, sr) {
			continue
		}
		k, sl := kr*8+kf, sr*8+sf
		if bd[k] != 0 || bd[sl] != 0 {
			continue
		}
		clear := true
		for i := 1; i < kn+sn; i++ {
			if q := (kr+i*dr[d])*8 + kf + i*df[d]; bd[q] != 0 {
				clear = false
			}
		}
		if !clear {
			continue
		}
		bd[k] = 8*c + 6
		if d == 0 {
			bd[sl] = 8*(1-c) + []int{4, 5}[rng.Intn(2)]
		} else {
			bd[sl] = 8*(1-c) + []int{3, 5}[rng.Intn(2)]
		}
		origin := ep + (epR-toR)*8
		if origin < 0 || origin > 63 || bd[origin] != 0 {
			continue
		}
		ek := rng.Intn(64)
		if bd[ek] != 0 || ek == ep || ek == origin || (abs(ek%8-kf) <= 1 && abs(ek/8-kr) <= 1) {
			continue
		}
		bd[ek] = 8*(1-c) + 6
		for i := 0; i < 7 && kingHasSafeMove(bd, c); i++ {
			sq := rng.Intn(64)
			if bd[sq] == 0 && sq != ep && sq != origin && !(sq/8 == epR && d == 0) {
				bd[sq] = 8*(1-c) + []int{5, 4, 3, 2}[rng.Intn(4)]
			}
		}
		if kingHasSafeMove(bd, c) && rng.Intn(3) != 0 {
			continue
		}
		if !countsOK(bd) || Attacked(bd, ek, c) || !Attacked(bd, k, 1-c) {
			continue
		}
		e := -1
		if EpCapturable(bd, c, ep) {
			e = ep
		}
		return FEN(bd, c, 0, e, 0, 1+rng.Intn(60))
	}
}

// BoxedKing builds positions in which the king of the side to move has no safe move, so that the
// answer of the checkmate / stalemate tests hinges on the other pieces: pawn pushes and captures
// (edge files included), double-push blocks, pinned defenders, en-passant resolutions.
// inCheck selects whether the side to move is in check.
func BoxedKing(rng *rand.Rand, inCheck bool) string {
	for {
		bd := make([]int, 64)
		c := rng.Intn(2)
		k := rng.Intn(64)
		if rng.Intn(3) != 0 { // edges and corners
			switch rng.Intn(3) {
			case 0:
				k = []int{0, 7, 56, 63}[rng.Intn(4)]
			case 1:
				k = rng.Intn(8) + 56*rng.Intn(2)
			default:
				k = rng.Intn(8)*8 + 7*rng.Intn(2)
			}
		}
		bd[k] = 8*c + 6
		ek := rng.Intn(64)
		if abs(ek%8-k%8) <= 1 && abs(ek/8-k/8) <= 1 {
			continue
		}
		bd[ek] = 8*(1-c) + 6
		// enemy pieces until the king is boxed in
		for i := 0; i < 6; i++ {
			sq := rng.Intn(64)
			if bd[sq] != 0 {
				continue
			}
			t := []int{5, 4, 4, 3, 2, 1}[rng.Intn(6)]
			if t == 1 && (sq/8 == 0 || sq/8 == 7) {
				continue
			}
			bd[sq] = 8*(1-c) + t
			if !kingHasSafeMove(bd, c) && i >= 1 {
				break
			}
		}
		// own blockers next to the king now and then
		for i, n := 0, rng.Intn(3); i < n; i++ {
			d := rng.Intn(8)
			f, r := k%8+df[d], k/8+dr[d]
			if onBoard(f, r) && bd[r*8+f] == 0 {
				t := []int{1, 1, 2, 3, 4}[rng.Intn(5)]
				if t == 1 && (r == 0 || r == 7) {
					continue
				}
				bd[r*8+f] = 8*c + t
			}
		}
		if kingHasSafeMove(bd, c) {
			continue
		}
		// the other pieces of the side to move: pawns (edge files favoured) and a piece or two,
		// with enemy men placed where they can be captured / block
		for i, n := 0, 1+rng.Intn(4); i < n; i++ {
			sq := rng.Intn(64)
			if rng.Intn(2) == 0 {
				sq = rng.Intn(8)*8 + 7*rng.Intn(2)
			}
			if bd[sq] != 0 {
				continue
			}
			t := []int{1, 1, 1, 2, 3, 4, 5}[rng.Intn(7)]
			if t == 1 && (sq/8 == 0 || sq/8 == 7) {
				continue
			}
			bd[sq] = 8*c + t
			if t == 1 && rng.Intn(2) == 0 {
				// something in front of it or on its capture squares
				dir := 1
				if c == 1 {
					dir = -1
				}
				for _, dfile := range []int{-1, 0, 1} {
					f, r := sq%8+dfile, sq/8+dir
					if onBoard(f, r) && bd[r*8+f] == 0 && rng.Intn(2) == 0 {
						et := []int{1, 2, 3, 4}[rng.Intn(4)]
						if et == 1 && (r == 0 || r == 7) {
							continue
						}
						bd[r*8+f] = 8*(1-c) + et
					}
				}
			}
		}
		if !countsOK(bd) || Attacked(bd, kingSq(bd, 1-c), c) {
			continue
		}
		chk := Attacked(bd, k, 1-c)
		if chk != inCheck {
			continue
		}
		// en-passant target when the shape allows and a capture is legal
		ep := -1
		for f := 0; f < 8 && ep < 0; f++ {
			if c == 0 && bd[4*8+f] == 9 && bd[5*8+f] == 0 && bd[6*8+f] == 0 && EpCapturable(bd, 0, 5*8+f) && rng.Intn(2) == 0 {
				ep = 5*8 + f
			}
			if c == 1 && bd[3*8+f] == 1 && bd[2*8+f] == 0 && bd[1*8+f] == 0 && EpCapturable(bd, 1, 2*8+f) && rng.Intn(2) == 0 {
				ep = 2*8 + f
			}
		}
		return FEN(bd, c, 0, ep, 0, 1+rng.Intn(80))
	}
}

// DeadEpStress: a double pawn push (edge files favoured) after which NO en-passant capture should be
// recorded although enemy pawns stand nearby (wrap-around squares, wrong rank, pinned neighbours),
// on a board with knights to shuffle so that the position after the push can recur.
func DeadEpStress(rng *rand.Rand) (string, []int) {
	for {
		bd := make([]int, 64)
		c := rng.Intn(2)
		f := []int{0, 7, 0, 7, rng.Intn(8)}[rng.Intn(5)]
		homeR, toR, dir := 1, 3, 1
		if c == 1 {
			homeR, toR, dir = 6, 4, -1
		}
		from, mid, to := homeR*8+f, (homeR+dir)*8+f, toR*8+f
		bd[from] = 8*c + 1
		for i, n := 0, 1+rng.Intn(3); i < n; i++ {
			r := toR + rng.Intn(3) - 1
			g := rng.Intn(8)
			if rng.Intn(2) == 0 {
				g = 7 - f // the file a wrap-around would reach
			}
			sq := r*8 + g
			if sq == mid || sq == to || sq == from || r < 1 || r > 6 || bd[sq] != 0 {
				continue
			}
			if r == toR && abs(g-f) == 1 {
				continue // that one could really capture
			}
			bd[sq] = 8*(1-c) + 1
		}
		place := func(pc int) bool {
			for try := 0; try < 30; try++ {
				sq := rng.Intn(64)
				if bd[sq] == 0 && sq != mid && sq != to {
					bd[sq] = pc
					return true
				}
			}
			return false
		}
		place(6)
		place(14)
		place(2)
		place(10)
		if rng.Intn(2) == 0 {
			place(8*rng.Intn(2) + 4)
		}
		wk, bk := kingSq(bd, 0), kingSq(bd, 1)
		if wk < 0 || bk < 0 || (abs(wk%8-bk%8) <= 1 && abs(wk/8-bk/8) <= 1) {
			continue
		}
		if Attacked(bd, kingSq(bd, 1-c), c) || Attacked(bd, kingSq(bd, c), 1-c) {
			continue
		}
		return FEN(bd, c, 0, -1, 0, 1+rng.Intn(40)), []int{from, to}
	}
}

// BlockStress: the side to move is in check from a DISTANT slider and its king has no safe move, so the verdict
// hinges on interposing: own pawns stand on their second/third ranks on the files of the squares between king
// and checker (single and double pushes, double pushes jumping over something), some of them pinned, plus a
// knight/bishop that may interpose or capture.
func BlockStress(rng *rand.Rand) string {
	for try := 0; ; try++ {
		bd := make([]int, 64)
		c := rng.Intn(2)
		k := rng.Intn(64)
		d := rng.Intn(8)
		dist := 2 + rng.Intn(5)
		kf, kr := k%8, k/8
		cf, cr := kf+dist*df[d], kr+dist*dr[d]
		if !onBoard(cf, cr) {
			continue
		}
		bd[k] = 8*c + 6
		checker := 5
		if rng.Intn(2) == 0 {
			if d < 4 {
				checker = 4
			} else {
				checker = 3
			}
		}
		bd[cr*8+cf] = 8*(1-c) + checker
		var between []int
		for i := 1; i < dist; i++ {
			between = append(between, (kr+i*dr[d])*8+kf+i*df[d])
		}
		home, third, dirp := 1, 2, 1
		if c == 1 {
			home, third, dirp = 6, 5, -1
		}
		_ = dirp
		// pawns that could interpose by a push
		for _, b := range between {
			f, r := b%8, b/8
			if r == home || (c == 0 && r < home) || (c == 1 && r > home) {
				continue
			}
			if rng.Intn(3) != 0 && bd[home*8+f] == 0 && home*8+f != k {
				bd[home*8+f] = 8*c + 1
				// something on the third rank of that file now and then: own pawn, own piece, enemy piece
				if rng.Intn(2) == 0 && bd[third*8+f] == 0 && third*8+f != b && third*8+f != k {
					bd[third*8+f] = []int{8*c + 1, 8*c + 2, 8*(1-c) + 2, 8*(1-c) + 1}[rng.Intn(4)]
				}
			}
		}
		// enemy king and boxing pieces
		ek := rng.Intn(64)
		if bd[ek] != 0 || (abs(ek%8-kf) <= 1 && abs(ek/8-kr) <= 1) {
			continue
		}
		bd[ek] = 8*(1-c) + 6
		for i := 0; i < 5 && kingHasSafeMove(bd, c); i++ {
			sq := rng.Intn(64)
			if bd[sq] == 0 && !contains(between, sq) {
				t := []int{5, 4, 3, 2}[rng.Intn(4)]
				bd[sq] = 8*(1-c) + t
			}
		}
		if kingHasSafeMove(bd, c) {
			continue
		}
		// pinners aimed at the own pawns through the king lines, an own minor piece somewhere
		for i, n := 0, rng.Intn(3); i < n; i++ {
			sq := rng.Intn(64)
			if bd[sq] == 0 && !contains(between, sq) {
				bd[sq] = 8*(1-c) + []int{3, 4, 5}[rng.Intn(3)]
			}
		}
		if rng.Intn(2) == 0 {
			sq := rng.Intn(64)
			if bd[sq] == 0 && !contains(between, sq) {
				bd[sq] = 8*c + []int{2, 3}[rng.Intn(2)]
			}
		}
		if !countsOK(bd) || Attacked(bd, kingSq(bd, 1-c), c) || !Attacked(bd, k, 1-c) {
			continue
		}
		bad := false
		for s2, p := range bd {
			if p%8 == 1 && (s2/8 == 0 || s2/8 == 7) {
				bad = true
			}
		}
		if bad {
			continue
		}
		return FEN(bd, c, 0, -1, 0, 1+rng.Intn(60))
	}
}

func contains(l []int, x int) bool {
	for _, y := range l {
		if y == x {
			return true
		}
	}
	return false
}

// EpOnlyMove: the side to move is not in check, its king and its other men have no move (or there are none), and
// an en-passant capture is on offer - legal, or illegal because the capturer is pinned, or because taking both
// pawns off the rank/file/diagonal uncovers the king. The en-passant target is recorded only when a capture is
// legal (the convention the fast tests assume).
func EpOnlyMove(rng *rand.Rand) string {
	for {
		bd := make([]int, 64)
		c := rng.Intn(2) // side to move (the capturer)
		f := rng.Intn(8)
		toR, epR, capR := 4, 5, 4 // white captures: black pawn on rank 5 (index 4), target rank 6 (index 5)
		if c == 1 {
			toR, epR, capR = 3, 2, 3
		}
		pushed := toR*8 + f
		ep := epR*8 + f
		bd[pushed] = 8*(1-c) + 1
		var caps []int
		for _, nf := range []int{f - 1, f + 1} {
			if nf >= 0 && nf < 8 && rng.Intn(3) != 0 {
				bd[capR*8+nf] = 8*c + 1
				caps = append(caps, capR*8+nf)
			}
		}
		if len(caps) == 0 {
			continue
		}
		// the king: behind the target on the push file, on the capturers' rank, on a diagonal through the target or
		// through a capturer, or anywhere
		var k int
		lineSlider := -1 // an enemy slider placed deliberately on the line king -> capturer/pushed pawn -> beyond
		switch rng.Intn(7) {
		case 5:
			// king on the push file on its own side of the pushed pawn, enemy rook/queen on the far end of the file:
			// the capturing pawn, once it has landed on the target square, is what shields the king
			r := toR - (1+rng.Intn(3))*(epR-toR)
			far := epR + 2*(epR-toR)
			if r < 0 || r > 7 || far < 0 || far > 7 {
				continue
			}
			k = r*8 + f
			lineSlider = far*8 + f
		case 6:
			// king behind a capturer on the diagonal capturer -> target, enemy bishop/queen beyond the target
			cp := caps[rng.Intn(len(caps))]
			dfile, drank := f-cp%8, epR-capR
			n, m := 1+rng.Intn(3), 1+rng.Intn(2)
			kf, kr := cp%8-n*dfile, capR-n*drank
			sf, sr := f+m*dfile, epR+m*drank
			if !onBoard(kf, kr) || !onBoard(sf, sr) {
				continue
			}
			k = kr*8 + kf
			lineSlider = sr*8 + sf
		case 0:
			r := epR + 1 + rng.Intn(2)
			if c == 1 {
				r = epR - 1 - rng.Intn(2)
			}
			if r < 0 || r > 7 {
				continue
			}
			k = r*8 + f
		case 1:
			k = capR*8 + rng.Intn(8)
		case 2, 3:
			a := ep
			if rng.Intn(2) == 0 {
				a = caps[rng.Intn(len(caps))]
			}
			d := 4 + rng.Intn(4)
			n := 1 + rng.Intn(4)
			kf, kr := a%8+n*df[d], a/8+n*dr[d]
			if !onBoard(kf, kr) {
				continue
			}
			k = kr*8 + kf
		default:
			k = rng.Intn(64)
		}
		if bd[k] != 0 || k == ep {
			continue
		}
		bd[k] = 8*c + 6
		if lineSlider >= 0 {
			if bd[lineSlider] != 0 {
				continue
			}
			if lineSlider%8 == f {
				bd[lineSlider] = 8*(1-c) + []int{4, 5}[rng.Intn(2)]
			} else {
				bd[lineSlider] = 8*(1-c) + []int{3, 5}[rng.Intn(2)]
			}
		}
		// an enemy slider on the far side of the line king -> pawns
		for i, n := 0, 1+rng.Intn(3); i < n; i++ {
			sq := rng.Intn(64)
			if bd[sq] == 0 && sq != ep {
				bd[sq] = 8*(1-c) + []int{3, 4, 5, 5}[rng.Intn(4)]
			}
		}
		ek := rng.Intn(64)
		if bd[ek] != 0 || ek == ep || (abs(ek%8-k%8) <= 1 && abs(ek/8-k/8) <= 1) {
			continue
		}
		bd[ek] = 8*(1-c) + 6
		// block the capturers' own pushes and box the king
		dirp := 8
		if c == 1 {
			dirp = -8
		}
		for _, cp := range caps {
			if fr := cp + dirp; fr >= 0 && fr < 64 && bd[fr] == 0 && fr != ep && rng.Intn(4) != 0 {
				bd[fr] = 8*(1-c) + []int{1, 2, 3}[rng.Intn(3)]
				if bd[fr]%8 == 1 && (fr/8 == 0 || fr/8 == 7) {
					bd[fr] = 8*(1-c) + 2
				}
			}
		}
		for i := 0; i < 6 && kingHasSafeMove(bd, c); i++ {
			sq := rng.Intn(64)
			if bd[sq] == 0 && sq != ep {
				bd[sq] = 8*(1-c) + []int{5, 4, 3, 2}[rng.Intn(4)]
			}
		}
		origin := ep + dirp
		if origin < 0 || origin > 63 || bd[origin] != 0 {
			continue
		}
		if kingHasSafeMove(bd, c) && rng.Intn(3) != 0 {
			continue
		}
		if !countsOK(bd) || Attacked(bd, kingSq(bd, 1-c), c) || Attacked(bd, k, 1-c) {
			continue
		}
		e := -1
		if EpCapturable(bd, c, ep) {
			e = ep
		}
		return FEN(bd, c, 0, e, 0, 1+rng.Intn(60))
	}
}

// EpBattery: a capturable double push with heavy pieces stacked behind the pushed pawn on its file, along the
// rank the pawn lands on, and further attackers of the en-passant square (diagonals, knights): the exchange on
// the en-passant square then depends on lines that only open when BOTH pawns leave their squares.
func EpBattery(rng *rand.Rand) (string, int, int) {
	for {
		bd := make([]int, 64)
		c := rng.Intn(2)
		f := rng.Intn(8)
		homeR, toR, dir := 1, 3, 1
		if c == 1 {
			homeR, toR, dir = 6, 4, -1
		}
		from, mid, to := homeR*8+f, (homeR+dir)*8+f, toR*8+f
		bd[from] = 8*c + 1
		ncap := 0
		for _, nf := range []int{f - 1, f + 1} {
			if nf >= 0 && nf < 8 && rng.Intn(4) != 0 {
				bd[toR*8+nf] = 8*(1-c) + 1
				ncap++
			}
		}
		if ncap == 0 {
			continue
		}
		put := func(sq, pc int) {
			if sq >= 0 && sq < 64 && bd[sq] == 0 && sq != mid && sq != to {
				if pc%8 == 1 && (sq/8 == 0 || sq/8 == 7) {
					return
				}
				bd[sq] = pc
			}
		}
		heavy := func() int { return 8*rng.Intn(2) + []int{4, 4, 5}[rng.Intn(3)] }
		// stacked on the file, on both sides of the pawn's path
		for r := 0; r < 8; r++ {
			if rng.Intn(3) == 0 {
				put(r*8+f, heavy())
			}
		}
		// along the rank the pawn lands on
		for g := 0; g < 8; g++ {
			if rng.Intn(4) == 0 {
				put(toR*8+g, heavy())
			}
		}
		// diagonal and knight attackers of the en-passant square
		for d := 4; d < 8; d++ {
			cf, cr := mid%8+df[d], mid/8+dr[d]
			for onBoard(cf, cr) {
				if rng.Intn(5) == 0 {
					put(cr*8+cf, 8*rng.Intn(2)+[]int{3, 5}[rng.Intn(2)])
				}
				cf, cr = cf+df[d], cr+dr[d]
			}
		}
		for _, kn := range [][2]int{{1, 2}, {2, 1}, {-1, 2}, {-2, 1}, {1, -2}, {2, -1}, {-1, -2}, {-2, -1}} {
			if onBoard(mid%8+kn[0], mid/8+kn[1]) && rng.Intn(5) == 0 {
				put((mid/8+kn[1])*8+mid%8+kn[0], 8*rng.Intn(2)+2)
			}
		}
		for _, kc := range []int{6, 14} {
			for try := 0; try < 40; try++ {
				sq := rng.Intn(64)
				if bd[sq] == 0 && sq != mid && sq != to {
					bd[sq] = kc
					break
				}
			}
		}
		wk, bk := kingSq(bd, 0), kingSq(bd, 1)
		if wk < 0 || bk < 0 || (abs(wk%8-bk%8) <= 1 && abs(wk/8-bk/8) <= 1) || !countsOK(bd) {
			continue
		}
		if Attacked(bd, kingSq(bd, 1-c), c) {
			continue
		}
		return FEN(bd, c, 0, -1, 0, 1+rng.Intn(50)), from, to
	}
}

func abs(x int) int {
	if x < 0 {
		return -x
	}
	return x
}

// ParseCanonFEN is a small independent parser for canonical FEN text (used to tell the specification which
// position a text denotes when the engine refuses it).
func ParseCanonFEN(fen string) (bd []int, stm, cr, ep, hm, fm int, ok bool) {
	f := strings.Split(fen, " ")
	if len(f) != 6 {
		return
	}
	bd = make([]int, 64)
	rank, file := 7, 0
	for i := 0; i < len(f[0]); i++ {
		ch := f[0][i]
		switch {
		case ch == '/':
			rank--
			file = 0
		case ch >= '1' && ch <= '8':
			file += int(ch - '0')
		default:
			pc := strings.IndexByte(" PNBRQK  pnbrqk", ch)
			if pc <= 0 || rank < 0 || file > 7 {
				return
			}
			bd[rank*8+file] = pc
			file++
		}
	}
	if f[1] == "b" {
		stm = 1
	} else if f[1] != "w" {
		return
	}
	if f[2] != "-" {
		for _, ch := range f[2] {
			i := strings.IndexRune("KQkq", ch)
			if i < 0 {
				return
			}
			cr |= 1 << i
		}
	}
	ep = -1
	if f[3] != "-" {
		if len(f[3]) != 2 {
			return
		}
		ep = int(f[3][1]-'1')*8 + int(f[3][0]-'a')
	}
	if _, err := fmt.Sscanf(f[4], "%d", &hm); err != nil {
		return
	}
	if _, err := fmt.Sscanf(f[5], "%d", &fm); err != nil {
		return
	}
	ok = true
	return
}

// LoadCorpus reads one FEN per line ('#' comments and blank lines skipped).
func LoadCorpus(path string) []string {
	f, err := os.Open(path)
	if err != nil {
		panic(err)
	}
	defer f.Close()
	var res []string
	sc := bufio.NewScanner(f)
	for sc.Scan() {
		line := strings.TrimSpace(sc.Text())
		if line == "" || line[0] == '#' {
			continue
		}
		if i := strings.Index(line, " #"); i >= 0 {
			line = strings.TrimSpace(line[:i])
		}
		res = append(res, line)
	}
	return res
}
