// Package proj projects the state of the real chess-3 board into the
// abstract state of the TLA+ specification (Chess.tla / Game.tla).
package proj

import (
	"strconv"

	"github.com/paulsonkoly/chess-3/board"
	. "github.com/paulsonkoly/chess-3/chess"
	"github.com/paulsonkoly/chess-3/move"
	"github.com/paulsonkoly/chess-3/movegen"
)

// Pos is the position record of Chess.tla.
type Pos struct {
	Bd  []int `json:"bd"`
	Stm int   `json:"stm"`
	Cr  int   `json:"cr"`
	Ep  int   `json:"ep"`
	Hm  int   `json:"hm"`
	Fm  int   `json:"fm"`
}

// Placement from the per-square piece map + colour sets.
func placementSquares(b *board.Board) []int {
	bd := make([]int, 64)
	for sq := 0; sq < 64; sq++ {
		p := int(b.SquaresToPiece[sq])
		if p != 0 && b.Colors[Black]&(1<<sq) != 0 {
			p += 8
		}
		bd[sq] = p
	}
	return bd
}

// PlacementBitboards derives the placement from Pieces[] x Colors[] only.
// A square claimed by several piece types or both colours yields 100+.
func PlacementBitboards(b *board.Board) []int {
	bd := make([]int, 64)
	for sq := 0; sq < 64; sq++ {
		bit := BitBoard(1) << sq
		v := 0
		n := 0
		for p := Pawn; p <= King; p++ {
			if b.Pieces[p]&bit != 0 {
				v = int(p)
				n++
			}
		}
		w := b.Colors[White]&bit != 0
		k := b.Colors[Black]&bit != 0
		switch {
		case n == 0 && !w && !k:
			bd[sq] = 0
		case n == 1 && w && !k:
			bd[sq] = v
		case n == 1 && k && !w:
			bd[sq] = v + 8
		default:
			bd[sq] = 100 + n
		}
		if b.Pieces[NoPiece]&bit != 0 {
			bd[sq] = 200
		}
	}
	return bd
}

// PlacementFEN derives the placement from the printed FEN text.
func PlacementFEN(fen string) []int {
	bd := make([]int, 64)
	rank, file := 7, 0
	for i := 0; i < len(fen) && fen[i] != ' '; i++ {
		c := fen[i]
		switch {
		case c == '/':
			rank--
			file = 0
		case c >= '1' && c <= '8':
			file += int(c - '0')
		default:
			idx := map[byte]int{'P': 1, 'N': 2, 'B': 3, 'R': 4, 'Q': 5, 'K': 6, 'p': 9, 'n': 10, 'b': 11, 'r': 12, 'q': 13, 'k': 14}[c]
			if rank >= 0 && file < 8 {
				bd[rank*8+file] = idx
			}
			file++
		}
	}
	return bd
}

// Project builds the spec position from the struct fields (not from FEN text).
func Project(b *board.Board) Pos {
	ep := int(b.EnPassant)
	if ep == 0 {
		ep = -1
	}
	return Pos{Bd: placementSquares(b), Stm: int(b.STM), Cr: int(b.Castles), Ep: ep, Hm: int(b.FiftyCnt), Fm: board.VerifFullMoves(b)}
}

func H(h board.Hash) string { return strconv.FormatUint(uint64(h), 10) }

func Hashes(b *board.Board) []string {
	hs := board.VerifHashes(b)
	res := make([]string, len(hs))
	for i, h := range hs {
		res[i] = H(h)
	}
	return res
}

// Generated returns the generator's output (noisy then quiet), as encodings in generation order.
func Generated(b *board.Board, ms *move.Store) []int {
	ms.Push()
	defer ms.Pop()
	movegen.GenNoisy(ms, b)
	movegen.GenNotNoisy(ms, b)
	res := make([]int, 0, 64)
	for _, w := range ms.Frame() {
		res = append(res, int(w.Move))
	}
	return res
}

// GeneratedNested: the same, with `fill` moves of deeper plies already on the store (a frame below the new one),
// as in a search that is many plies deep. The store holds move.StoreSize moves in all.
func GeneratedNested(b *board.Board, ms *move.Store, fill int) []int {
	ms.Push()
	defer ms.Pop()
	for i := 0; i < fill; i++ {
		ms.Alloc(move.Move(1))
	}
	return Generated(b, ms)
}

// Playable is the engine's notion of playable moves: generated moves that do
// not leave the mover's king attacked, filtered exactly as search and perft do.
func Playable(b *board.Board, ms *move.Store) []move.Move {
	ms.Push()
	defer ms.Pop()
	movegen.GenNoisy(ms, b)
	movegen.GenNotNoisy(ms, b)
	var res []move.Move
	me := b.STM
	for _, w := range ms.Frame() {
		r := b.MakeMove(w.Move)
		if !b.InCheck(me) {
			res = append(res, w.Move)
		}
		b.UndoMove(w.Move, r)
	}
	return res
}

func Enc(ms []move.Move) []int {
	r := make([]int, len(ms))
	for i, m := range ms {
		r[i] = int(m)
	}
	return r
}

// Accepted evaluates IsPseudoLegal on all 2^15 encodings.
func Accepted(b *board.Board) []int {
	res := make([]int, 0, 64)
	for e := 0; e < 1<<15; e++ {
		if b.IsPseudoLegal(move.Move(e)) {
			res = append(res, e)
		}
	}
	return res
}
