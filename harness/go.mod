module verifharness

go 1.25.4

require github.com/paulsonkoly/chess-3 v0.0.0

require golang.org/x/exp v0.0.0-20250218142911-aa4b98e5adaa // indirect

replace github.com/paulsonkoly/chess-3 => /repo
