// rec-attacks dumps the engine's attack tables for validation against Geometry.tla (property C12).
//
// The occupancy subsets enumerated are subsets of the GEOMETRIC relevant-occupancy mask computed
// here by coordinate arithmetic (and re-checked by the specification), never of the engine's own
// mask table, plus random full-board occupancies so that bits outside the mask are really fed in.
package main

import (
	"bufio"
	"encoding/json"
	"flag"
	"math/rand"
	"os"

	"github.com/paulsonkoly/chess-3/attacks"
	. "github.com/paulsonkoly/chess-3/chess"
)

type Ev struct {
	K   string `json:"k"`
	Sq  int    `json:"sq"`
	Sq2 int    `json:"sq2"`
	C   int    `json:"c"`
	Cls string `json:"cls"` // "mask" = subset of the geometric mask (exhaustive class), "full" = random full board
	Occ []int  `json:"occ"`
	Res []int  `json:"res"`
}

func sqs(b BitBoard) []int {
	res := []int{}
	for s := 0; s < 64; s++ {
		if b&(1<<s) != 0 {
			res = append(res, s)
		}
	}
	return res
}

var df = [8]int{1, -1, 0, 0, 1, 1, -1, -1}
var dr = [8]int{0, 0, 1, -1, 1, -1, 1, -1}

// geometric mask: every ray without its last square
func geoMask(s int, dirs []int) []int {
	var res []int
	for _, d := range dirs {
		f, r := s%8+df[d], s/8+dr[d]
		var ray []int
		for f >= 0 && f < 8 && r >= 0 && r < 8 {
			ray = append(ray, r*8+f)
			f, r = f+df[d], r+dr[d]
		}
		if len(ray) > 1 {
			res = append(res, ray[:len(ray)-1]...)
		}
	}
	return res
}

func main() {
	shard := flag.Int("shard", 0, "shard index")
	nshards := flag.Int("nshards", 1, "number of shards")
	nrand := flag.Int("rand", 1000, "random full-board occupancies per slider type (whole run)")
	seed := flag.Int64("seed", 1, "seed")
	out := flag.String("out", "", "output file")
	entry := flag.String("entry", "", "replay one slider entry: JSON {k, sq, occ[]}")
	flag.Parse()
	if *entry != "" {
		var e Ev
		if err := json.Unmarshal([]byte(*entry), &e); err != nil {
			panic(err)
		}
		var occ BitBoard
		for _, q := range e.Occ {
			occ |= 1 << uint(q)
		}
		switch e.K {
		case "rook":
			e.Res = sqs(attacks.RookMoves(Square(e.Sq), occ))
		case "bishop":
			e.Res = sqs(attacks.BishopMoves(Square(e.Sq), occ))
		default:
			panic("only slider entries are replayed this way")
		}
		f, err := os.Create(*out)
		if err != nil {
			panic(err)
		}
		defer f.Close()
		if err := json.NewEncoder(f).Encode(e); err != nil {
			panic(err)
		}
		return
	}
	f, err := os.Create(*out)
	if err != nil {
		panic(err)
	}
	defer f.Close()
	w := bufio.NewWriterSize(f, 1<<20)
	defer w.Flush()
	enc := json.NewEncoder(w)
	n := 0
	emit := func(e Ev) {
		n++
		if n%*nshards != *shard {
			return
		}
		if e.Occ == nil {
			e.Occ = []int{}
		}
		if err := enc.Encode(e); err != nil {
			panic(err)
		}
	}
	rook, bishop := []int{0, 1, 2, 3}, []int{4, 5, 6, 7}
	for s := 0; s < 64; s++ {
		for _, t := range []struct {
			k    string
			dirs []int
			fn   func(Square, BitBoard) BitBoard
		}{{"rook", rook, attacks.RookMoves}, {"bishop", bishop, attacks.BishopMoves}} {
			m := geoMask(s, t.dirs)
			for sub := 0; sub < 1<<len(m); sub++ {
				var occ BitBoard
				var ol []int
				for i, q := range m {
					if sub&(1<<i) != 0 {
						occ |= 1 << q
						ol = append(ol, q)
					}
				}
				emit(Ev{K: t.k, Sq: s, Cls: "mask", Occ: ol, Res: sqs(t.fn(Square(s), occ))})
				// the same subset with EVERY square outside the mask occupied as well: must not matter
				inMask := BitBoard(0)
				for _, q := range m {
					inMask |= 1 << q
				}
				outside := ^inMask &^ (BitBoard(1) << s)
				emit(Ev{K: t.k, Sq: s, Cls: "full", Occ: sqs(occ | outside), Res: sqs(t.fn(Square(s), occ|outside))})
				// ... and, for the extreme subsets, with each single outside square
				if sub == 0 || sub == 1<<len(m)-1 {
					for q := 0; q < 64; q++ {
						if outside&(1<<q) != 0 {
							emit(Ev{K: t.k, Sq: s, Cls: "full", Occ: sqs(occ | 1<<q), Res: sqs(t.fn(Square(s), occ|1<<q))})
						}
					}
				}
			}
		}
		emit(Ev{K: "king", Sq: s, Res: sqs(attacks.KingMoves(Square(s)))})
		emit(Ev{K: "knight", Sq: s, Res: sqs(attacks.KnightMoves(Square(s)))})
		for c := 0; c < 2; c++ {
			emit(Ev{K: "pcap", Sq: s, C: c, Occ: []int{s}, Res: sqs(attacks.PawnCaptureMoves(1<<s, Color(c)))})
			emit(Ev{K: "ppush", Sq: s, C: c, Occ: []int{s}, Res: sqs(attacks.PawnSinglePushMoves(1<<s, Color(c)))})
		}
		for t := 0; t < 64; t++ {
			emit(Ev{K: "between", Sq: s, Sq2: t, Res: sqs(attacks.InBetween[s][t])})
		}
	}
	rng := rand.New(rand.NewSource(*seed))
	for i := 0; i < *nrand; i++ {
		s := rng.Intn(64)
		occ := BitBoard(rng.Uint64())
		switch rng.Intn(3) {
		case 0:
			occ &= BitBoard(rng.Uint64())
		case 1:
			occ |= BitBoard(rng.Uint64())
		}
		emit(Ev{K: "rook", Sq: s, Cls: "full", Occ: sqs(occ), Res: sqs(attacks.RookMoves(Square(s), occ))})
		emit(Ev{K: "bishop", Sq: s, Cls: "full", Occ: sqs(occ), Res: sqs(attacks.BishopMoves(Square(s), occ))})
	}
	// multi-pawn sets
	for i := 0; i < *nrand/10+200; i++ {
		set := BitBoard(rng.Uint64()) & BitBoard(rng.Uint64())
		if i%3 == 0 {
			set &= BitBoard(rng.Uint64())
		}
		c := rng.Intn(2)
		emit(Ev{K: "pcap", Sq: -1, C: c, Occ: sqs(set), Res: sqs(attacks.PawnCaptureMoves(set, Color(c)))})
		emit(Ev{K: "ppush", Sq: -1, C: c, Occ: sqs(set), Res: sqs(attacks.PawnSinglePushMoves(set, Color(c)))})
	}
}
