// rec-board records ndjson traces of the real chess-3 board package for
// validation against GameTrace.tla (properties C01-C05, C09, C10, C11 round trip).
//
// Every event is one public call on a real board.Board (load = FromFEN,
// make = MakeMove, undo = UndoMove, nullmake/nullundo) together with the
// projection of the resulting state and the observations selected by -obs.
package main

import (
	"bufio"
	"bytes"
	"encoding/json"
	"flag"
	"fmt"
	"io"
	"math/rand"
	"os"
	"runtime/debug"
	"strings"
	"sync"
	"time"

	"github.com/paulsonkoly/chess-3/board"
	. "github.com/paulsonkoly/chess-3/chess"
	"github.com/paulsonkoly/chess-3/move"
	"github.com/paulsonkoly/chess-3/search"
	"github.com/paulsonkoly/chess-3/transp"
	"github.com/paulsonkoly/chess-3/uci"

	"verifharness/internal/gen"
	"verifharness/internal/proj"
)

type Ev struct {
	Ev      string    `json:"ev"`
	T       int       `json:"t"`
	Fen     string    `json:"fen,omitempty"`
	Canon   *bool     `json:"canon,omitempty"`
	M       *int      `json:"m,omitempty"`
	Illegal *bool     `json:"illegal,omitempty"`
	Pos     *proj.Pos `json:"pos,omitempty"`
	ZNames  *[]string `json:"znames,omitempty"`
	ZKeys   *[]string `json:"zkeys,omitempty"`
	Want    *proj.Pos `json:"want,omitempty"` // load: what the FEN text denotes (the harness's own reading)
	Legal   *[]int    `json:"legal,omitempty"`
	Gen     *[]int    `json:"gen,omitempty"`
	Acc     *[]int    `json:"acc,omitempty"`
	Mate    *bool     `json:"mate,omitempty"`
	Stale   *bool     `json:"stale,omitempty"`
	Chk     *bool     `json:"chk,omitempty"`
	Rep     *int      `json:"rep,omitempty"`
	Scan    *bool     `json:"scan,omitempty"`
	Hash    string    `json:"hash,omitempty"`
	Scratch string    `json:"scratch,omitempty"`
	KHash   *bool     `json:"khash,omitempty"`
	Pl2     *[]int    `json:"pl2,omitempty"`
	Pl3     *[]int    `json:"pl3,omitempty"`
	Hashes  *[]string `json:"hashes,omitempty"`
	ScrNo   string    `json:"scrNo,omitempty"`
	ScrWith string    `json:"scrWith,omitempty"`
	FenText string    `json:"fenText,omitempty"`
	// transp / uciPosition
	Root   *proj.Pos `json:"root,omitempty"`
	Ma     *[]int    `json:"ma,omitempty"`
	Mb     *[]int    `json:"mb,omitempty"`
	Ha     string    `json:"ha,omitempty"`
	Hb     string    `json:"hb,omitempty"`
	Moves  *[]int    `json:"moves,omitempty"`
	FenOut string    `json:"fenOut,omitempty"`
	Best   string    `json:"best,omitempty"`
	P1     *int      `json:"p1,omitempty"`
	P2     *int      `json:"p2,omitempty"`
	Msg    string    `json:"msg,omitempty"`
	Engine *bool     `json:"engine,omitempty"`
	// enum
	X    int    `json:"x,omitempty"`
	From int    `json:"from"`
	Cnt  *[]int `json:"cnt,omitempty"`
	Sum  *[]int `json:"sum,omitempty"`
	St   *[]int `json:"st,omitempty"`
}

type rec struct {
	noRep     bool // no repetition query at all for the moment
	seed      int64
	htail     bool // log length + newest entries of the hash history instead of all of it
	sparseRep bool // the repetition count is observed only at every fourth event or so
	w         *bufio.Writer
	enc       *json.Encoder
	obs       map[string]bool
	ms        *move.Store
	n         int
	t         int
	max       int
	tr        bool
	rng       *rand.Rand
	root      string
	plain     bool // plain FEN output (no events)
	// a second board from board.StartPos() that is played on between the operations of the recorded one
	shadow *board.Board
}

var tru = true

func (r *rec) full() bool { return r.n >= r.max }

func (r *rec) observe(b *board.Board, e *Ev, judged bool) {
	p := proj.Project(b)
	e.Pos = &p
	if !judged {
		// position after an illegal pseudo-legal move: only the snapshot matters
		if r.obs["hash"] {
			e.Hash = proj.H(b.Hash())
		}
		if r.obs["hashes"] {
			hs := proj.Hashes(b)
			e.Hashes = &hs
		}
		return
	}
	if r.obs["legal"] {
		l := proj.Enc(proj.Playable(b, r.ms))
		e.Legal = &l
	}
	if r.obs["gen"] {
		g := proj.Generated(b, r.ms)
		if r.rng.Intn(25) == 0 {
			// the store almost (or exactly) full of the moves of shallower plies
			g = proj.GeneratedNested(b, r.ms, move.StoreSize-len(g)-[]int{0, 0, 1, 2, 7}[r.rng.Intn(5)])
		}
		a := proj.Accepted(b)
		e.Gen, e.Acc = &g, &a
	}
	if r.obs["status"] {
		chk := b.InCheck(b.STM)
		e.Chk = &chk
		if chk {
			v := b.IsCheckmate()
			e.Mate = &v
		} else {
			v := b.IsStalemate()
			e.Stale = &v
		}
	}
	if r.obs["rep"] && !r.noRep && !(r.sparseRep && r.rng.Intn(4) != 0) {
		v := int(b.Threefold())
		e.Rep = &v
	}
	if r.obs["hash"] {
		e.Hash = proj.H(b.Hash())
		e.Scratch = proj.H(board.VerifScratchHash(b))
		e.KHash = &tru
		pl2 := proj.PlacementBitboards(b)
		pl3 := proj.PlacementFEN(b.FEN())
		e.Pl2, e.Pl3 = &pl2, &pl3
	}
	if r.obs["hashes"] {
		hs := proj.Hashes(b)
		if r.htail && len(hs) > 8 {
			// marathon games: the length of the history and its newest entries stand for the whole of it
			hs = append([]string{fmt.Sprintf("n=%d", len(hs))}, hs[len(hs)-8:]...)
		}
		e.Hashes = &hs
	}
	if r.obs["fen"] {
		e.FenText = b.FEN()
	}
}

func (r *rec) emit(e *Ev) {
	if r.shadow != nil && r.rng.Intn(2) == 0 {
		if lm := proj.Playable(r.shadow, move.NewStore()); len(lm) > 0 && len(board.VerifHashes(r.shadow)) < 100 {
			r.shadow.MakeMove(lm[r.rng.Intn(len(lm))])
		} else {
			r.shadow = board.StartPos()
		}
	}
	e.T = r.t
	if err := r.enc.Encode(e); err != nil {
		panic(err)
	}
	r.n++
}

// positions with an en-passant target that can be captured, castling rights and non-zero counters
var dirtyFens = []string{
	"rnbqkbnr/ppp1pppp/8/8/3pP3/8/PPPP1PPP/RNBQKBNR b KQkq e3 7 3",
	"rnbqkbnr/pppp1ppp/8/3Pp3/8/8/PPP1PPPP/RNBQKBNR w KQkq e6 3 3",
	"r3k2r/8/8/2pP4/8/8/8/R3K2R w KQkq c6 11 20",
	"r3k2r/8/8/8/5Pp1/8/8/R3K2R b Kq f3 40 60",
}

// rootPos: the position a FEN text denotes by the harness's own reading (checked by the specification against its
// printer); what the implementation made of the text is judged against it, not taken for it
func rootPos(fen string, b *board.Board) proj.Pos {
	if bd, stm, cr, ep, hm, fm, ok := gen.ParseCanonFEN(fen); ok {
		return proj.Pos{Bd: bd, Stm: stm, Cr: cr, Ep: ep, Hm: hm, Fm: fm}
	}
	return proj.Project(b)
}

func (r *rec) load(fen string) *board.Board {
	b, err := board.FromFEN(fen)
	if err != nil {
		panic(fmt.Sprintf("corpus fen rejected: %q: %v", fen, err))
	}
	if fen != StartPosFEN && r.rng.Intn(4) == 0 {
		// set up the way the tuner and the extractor do: parsed into a Board value that held another game before
		// (en-passant target, castling rights, counters, hash history), then ResetHash
		nb := new(board.Board)
		if err := board.ParseFEN(nb, []byte(dirtyFens[r.rng.Intn(len(dirtyFens))])); err == nil {
			nb.ResetHash()
			for i := r.rng.Intn(3); i > 0; i-- {
				if lm := proj.Playable(nb, r.ms); len(lm) > 0 {
					nb.MakeMove(lm[r.rng.Intn(len(lm))])
				}
			}
			if err := board.ParseFEN(nb, []byte(fen)); err == nil {
				nb.ResetHash()
				b = nb
			}
		}
	}
	if fen == StartPosFEN {
		// the start position as the driver creates it, with another start-position board alive and in use
		b = board.StartPos()
		r.shadow = board.StartPos()
	} else {
		r.shadow = nil
	}
	r.t++
	r.root = fen
	e := &Ev{Ev: "load", Fen: fen}
	if bd, stm, cr, ep, hm, fm, ok := gen.ParseCanonFEN(fen); ok {
		e.Want = &proj.Pos{Bd: bd, Stm: stm, Cr: cr, Ep: ep, Hm: hm, Fm: fm}
	}
	if r.obs["canon"] {
		e.Canon = &tru
	}
	r.observe(b, e, true)
	r.emit(e)
	return b
}

func (r *rec) make(b *board.Board, m move.Move, legal bool) board.Reverse {
	dbl := b.SquaresToPiece[m.From()] == Pawn && (m.To()-m.From() == 16 || m.From()-m.To() == 16)
	rv := b.MakeMove(m)
	mi := int(m)
	e := &Ev{Ev: "make", M: &mi}
	if !legal {
		e.Illegal = &tru
	}
	r.observe(b, e, legal)
	if legal && r.obs["hash"] {
		// what the hash would be with and without an en-passant target: the specification decides which one the
		// position must have (the target counts only when a capture is legal)
		cp := *b
		cp.EnPassant = 0
		e.ScrNo = proj.H(board.VerifScratchHash(&cp))
		if dbl {
			cp.EnPassant = (m.From() + m.To()) / 2
			e.ScrWith = proj.H(board.VerifScratchHash(&cp))
		}
	}
	r.emit(e)
	return rv
}

func (r *rec) undo(b *board.Board, m move.Move, rv board.Reverse) {
	b.UndoMove(m, rv)
	mi := int(m)
	e := &Ev{Ev: "undo", M: &mi}
	r.observe(b, e, true)
	r.emit(e)
}

func (r *rec) nullmake(b *board.Board) board.Reverse {
	rv := b.MakeNullMove()
	e := &Ev{Ev: "nullmake"}
	r.observeSnap(b, e)
	r.emit(e)
	return rv
}

func (r *rec) nullundo(b *board.Board, rv board.Reverse) {
	b.UndoNullMove(rv)
	e := &Ev{Ev: "nullundo"}
	r.observe(b, e, true)
	r.emit(e)
}

// after a null move the position may be one the side-not-to-move is not in check in, but it is not a
// position of the game: only snapshot + hash observations are meaningful.
func (r *rec) observeSnap(b *board.Board, e *Ev) {
	p := proj.Project(b)
	e.Pos = &p
	if r.obs["hash"] {
		e.Hash = proj.H(b.Hash())
		e.Scratch = proj.H(board.VerifScratchHash(b))
		pl2 := proj.PlacementBitboards(b)
		pl3 := proj.PlacementFEN(b.FEN())
		e.Pl2, e.Pl3 = &pl2, &pl3
	}
	if r.obs["hashes"] {
		hs := proj.Hashes(b)
		if r.htail && len(hs) > 8 {
			// marathon games: the length of the history and its newest entries stand for the whole of it
			hs = append([]string{fmt.Sprintf("n=%d", len(hs))}, hs[len(hs)-8:]...)
		}
		e.Hashes = &hs
	}
}

// ---------------------------------------------------------------- position sources

var profiles = []gen.Profile{
	{MinPieces: 1, MaxPieces: 5, PawnBias: 40},
	{MinPieces: 4, MaxPieces: 12, PawnBias: 50, NearKings: true},
	{MinPieces: 10, MaxPieces: 26, PawnBias: 50},
	{MinPieces: 8, MaxPieces: 22, PawnBias: 35, NearKings: true},
	{MinPieces: 6, MaxPieces: 18, PawnBias: 10, Promoted: true},
	{MinPieces: 6, MaxPieces: 20, PawnBias: 70},
}

// source yields a root position; a text the engine refuses is recorded as an observation (the specification
// decides whether it had to be accepted) and another one is drawn
func (r *rec) source(corpus []string, rawEp bool) string {
	for {
		fen := r.source1(corpus, rawEp)
		if _, err := board.FromFEN(fen); err == nil {
			return fen
		}
		if bd, stm, cr, ep, hm, fm, ok := gen.ParseCanonFEN(fen); ok {
			if r.plain {
				return fen // the reader of the list judges the rejection
			}
			p := proj.Pos{Bd: bd, Stm: stm, Cr: cr, Ep: ep, Hm: hm, Fm: fm}
			r.t++
			r.emit(&Ev{Ev: "fenRejected", Fen: fen, Pos: &p})
		}
	}
}

func (r *rec) source1(corpus []string, rawEp bool) string {
	if len(corpus) > 0 && r.rng.Intn(3) == 0 {
		return corpus[r.rng.Intn(len(corpus))]
	}
	if r.rng.Intn(7) == 0 {
		return gen.CastleStress(r.rng)
	}
	if r.rng.Intn(40) == 0 {
		return gen.MaxLenFEN(r.rng)
	}
	if r.rng.Intn(14) == 0 {
		return gen.CornerTrade(r.rng)
	}
	if r.rng.Intn(12) == 0 {
		// the material classes with special evaluation rules, also at the fifty-move boundary
		fen := gen.SparseEndgame(r.rng)
		if f := strings.Fields(fen); len(f) == 6 && r.rng.Intn(3) == 0 {
			f[4] = []string{"100", "99", "100"}[r.rng.Intn(3)]
			fen = strings.Join(f, " ")
		}
		return fen
	}
	pr := profiles[r.rng.Intn(len(profiles))]
	pr.RawEp = rawEp
	return gen.RandomValid(r.rng, pr)
}

// pick a move with a bias towards the rarer kinds (captures, promotions, castling, en passant, pawn double pushes)
func (r *rec) pick(b *board.Board, lm []move.Move) move.Move {
	// captures on rook home squares and recaptures by rooks there (castling-right bookkeeping)
	if r.rng.Intn(3) == 0 {
		var corner []move.Move
		for _, m := range lm {
			if t := m.To(); (t == A1 || t == H1 || t == A8 || t == H8) && b.SquaresToPiece[t] != NoPiece {
				corner = append(corner, m)
			}
		}
		if len(corner) > 0 {
			return corner[r.rng.Intn(len(corner))]
		}
	}
	if r.rng.Intn(3) == 0 {
		var special []move.Move
		for _, m := range lm {
			pc := b.SquaresToPiece[m.From()]
			d := int(m.To()) - int(m.From())
			if b.SquaresToPiece[m.To()] != NoPiece || m.Promo() != NoPiece || (pc == King && (d == 2 || d == -2)) ||
				(pc == Pawn && (d == 16 || d == -16 || b.IsEnPassant(m))) || pc == Rook || pc == King {
				special = append(special, m)
			}
		}
		if len(special) > 0 {
			return special[r.rng.Intn(len(special))]
		}
	}
	return lm[r.rng.Intn(len(lm))]
}

func (r *rec) play(corpus []string, plies int, rawEp bool) {
	for !r.full() {
		var b *board.Board
		var forced []move.Move
		if r.rng.Intn(6) == 0 {
			fen, mv := gen.EpStress2(r.rng)
			b = r.load(fen)
			if r.rng.Intn(5) != 0 {
				for i := 0; i+1 < len(mv); i += 2 {
					forced = append(forced, move.From(Square(mv[i]))|move.To(Square(mv[i+1])))
				}
			}
		} else {
			b = r.load(r.source(corpus, rawEp))
		}
		for ply := 0; ply < plies && !r.full(); ply++ {
			lm := proj.Playable(b, r.ms)
			if len(lm) == 0 {
				break
			}
			m := r.pick(b, lm)
			if ply < len(forced) {
				if contains(lm, forced[ply]) {
					m = forced[ply]
				} else {
					forced = nil
				}
			}
			r.make(b, m, true)
		}
	}
}

func (r *rec) positions(corpus []string, rawEp bool) {
	// the whole corpus first (shuffled, so that shards differ), then random valid positions
	idx := r.rng.Perm(len(corpus))
	for _, i := range idx {
		if r.full() {
			return
		}
		r.load(corpus[i])
	}
	for !r.full() {
		if r.obs["status"] && r.rng.Intn(2) == 0 {
			switch r.rng.Intn(6) {
			case 5:
				r.load(gen.EpInterpose(r.rng))
			case 0:
				r.load(gen.BlockStress(r.rng))
			case 1:
				r.load(gen.EpOnlyMove(r.rng))
			case 2:
				r.load(gen.DoublePushBlock(r.rng))
			default:
				r.load(gen.BoxedKing(r.rng, r.rng.Intn(2) == 0))
			}
			continue
		}
		pr := profiles[r.rng.Intn(len(profiles))]
		pr.RawEp = rawEp
		r.load(gen.RandomValid(r.rng, pr))
	}
}

// walk: nested make ... undo sequences over ALL pseudo-legal moves (illegal ones are made and
// immediately undone, as the search does), null moves where the mover is not in check.
// zkeys derives every Zobrist key the hash is made of from hashes of positions that differ in exactly one
// feature (a man on a square, the side to move, one castling right, the en-passant file) and logs them by name:
// the keys of different features must differ (GameModel.tla treats the hash as the SET of features).
func (r *rec) zkeys() {
	h := func(fen string) uint64 {
		b, err := board.FromFEN(fen)
		if err != nil {
			panic("zkeys: " + fen + ": " + err.Error())
		}
		return uint64(b.Hash())
	}
	var names, keys []string
	add := func(n string, k uint64) {
		names = append(names, n)
		keys = append(keys, fmt.Sprintf("%016x", k))
	}
	place := func(bd []int) string { return gen.FEN(bd, 0, 0, -1, 0, 1) }
	// two king set-ups so that every square is free in one of them
	for _, ks := range [][2]int{{4, 60}, {0, 63}} {
		base := make([]int, 64)
		base[ks[0]], base[ks[1]] = 6, 14
		h0 := h(place(base))
		for pc := 1; pc <= 13; pc++ {
			if pc == 6 || pc == 7 || pc == 8 {
				continue
			}
			for sq := 0; sq < 64; sq++ {
				if base[sq] != 0 || (ks[0] == 0 && sq != 4 && sq != 60) {
					continue // second set-up: only the squares the first one could not offer
				}
				if pc%8 == 1 && (sq/8 == 0 || sq/8 == 7) {
					continue
				}
				bd := append([]int{}, base...)
				bd[sq] = pc
				add(fmt.Sprintf("piece-%d-on-%d", pc, sq), h(place(bd))^h0)
			}
		}
	}
	// kings, relative to the king on e1 / e8
	for c := 0; c < 2; c++ {
		base := make([]int, 64)
		base[4], base[60] = 6, 14
		h0 := h(place(base))
		for sq := 0; sq < 64; sq++ {
			other := []int{60, 4}[c]
			if sq == []int{4, 60}[c] || (abs(sq%8-other%8) <= 1 && abs(sq/8-other/8) <= 1) {
				continue
			}
			bd := make([]int, 64)
			bd[other] = []int{14, 6}[c]
			bd[sq] = []int{6, 14}[c]
			add(fmt.Sprintf("king-%d-on-%d-rel", c, sq), h(place(bd))^h0)
		}
	}
	add("side-to-move", h("4k3/8/8/8/8/8/8/4K3 b - - 0 1")^h("4k3/8/8/8/8/8/8/4K3 w - - 0 1"))
	cb := h("r3k2r/8/8/8/8/8/8/R3K2R w - - 0 1")
	for _, c := range []string{"K", "Q", "k", "q"} {
		add("castling-"+c, h("r3k2r/8/8/8/8/8/8/R3K2R w "+c+" - 0 1")^cb)
	}
	for f := 0; f < 8; f++ {
		bd := make([]int, 64)
		bd[4], bd[60] = 6, 14
		if f == 4 {
			bd[4], bd[0] = 0, 6
		}
		bd[24+f] = 1
		without := gen.FEN(bd, 1, 0, -1, 0, 1)
		with := gen.FEN(bd, 1, 0, 16+f, 0, 1)
		add(fmt.Sprintf("en-passant-file-%d", f), h(with)^h(without))
	}
	r.t++
	r.emit(&Ev{Ev: "zkeys", ZNames: &names, ZKeys: &keys})
}

// marathon: one very long legal game (more than 2,048 plies, an irreversible move well before the clock
// reaches 100), a make/undo and a null make/undo at every ply from 2,000 on, then the whole game taken back
func (r *rec) marathon() {
	r.htail = true
	defer func() { r.htail = false }()
	b := r.load(StartPosFEN)
	type played struct {
		m  move.Move
		rv board.Reverse
	}
	var st []played
	target := 2060 + r.rng.Intn(120)
	for len(st) < target {
		lm := proj.Playable(b, r.ms)
		if len(lm) == 0 {
			break
		}
		var pawn, capt, quiet []move.Move
		for _, x := range lm {
			switch {
			case b.SquaresToPiece[x.To()] != NoPiece:
				capt = append(capt, x)
			case b.SquaresToPiece[x.From()] == Pawn:
				pawn = append(pawn, x)
			default:
				quiet = append(quiet, x)
			}
		}
		var m move.Move
		switch {
		case b.FiftyCnt >= 70 && len(pawn) > 0:
			m = pawn[r.rng.Intn(len(pawn))]
		case b.FiftyCnt >= 70 && len(capt) > 0:
			m = capt[r.rng.Intn(len(capt))]
		case b.FiftyCnt >= 95:
			m = 0
		case len(quiet) > 0:
			m = quiet[r.rng.Intn(len(quiet))]
		default:
			m = lm[r.rng.Intn(len(lm))]
		}
		if m == 0 {
			break
		}
		if len(st) >= 2000 {
			// straddle the round numbers: a move made and taken back, a null move made and taken back
			x := lm[r.rng.Intn(len(lm))]
			r.undo(b, x, r.make(b, x, true))
			if !b.InCheck(b.STM) {
				r.nullundo(b, r.nullmake(b))
			}
		}
		st = append(st, played{m, r.make(b, m, true)})
	}
	for len(st) > 0 {
		top := st[len(st)-1]
		st = st[:len(st)-1]
		r.undo(b, top.m, top.rv)
	}
}

func (r *rec) walk(corpus []string, depth int) {
	if r.obs["hashes"] && r.seed%6 == 0 { // consecutive shard seeds: every sixth shard
		r.max += 5000 // on top of the shard's budget
		r.marathon()
	}
	for !r.full() {
		if r.rng.Intn(5) == 0 {
			// double pushes that set an en-passant target, then every move and the null move below them
			fen, _ := gen.EpStress2(r.rng)
			r.tree(r.load(fen), 2)
			continue
		}
		src := r.source(corpus, false)
		if r.rng.Intn(8) == 0 {
			src = StartPosFEN
		}
		b := r.load(src)
		switch r.rng.Intn(8) {
		case 0, 1, 2:
			r.tree(b, 2)
		case 3:
			// long game first: the hash history grows past its initial capacity, clocks get large
			// every other time strictly reversible moves and long enough for the clock to pass 127 (it is kept in 8 bits)
			strict := r.rng.Intn(2) == 0
			n := 90 + r.rng.Intn(80)
			if strict {
				n = 135 + r.rng.Intn(60)
			}
			for i := 0; i < n && !r.full(); i++ {
				lm := proj.Playable(b, r.ms)
				if len(lm) == 0 {
					break
				}
				m := r.pickQuiet(b, lm)
				if strict {
					var quiet []move.Move
					for _, x := range lm {
						if b.SquaresToPiece[x.To()] == NoPiece && b.SquaresToPiece[x.From()] != Pawn {
							quiet = append(quiet, x)
						}
					}
					if len(quiet) > 0 {
						m = quiet[r.rng.Intn(len(quiet))]
					}
				}
				r.make(b, m, true)
			}
			r.randomWalk(b, depth)
		default:
			r.randomWalk(b, depth)
		}
	}
}

func (r *rec) isLegal(b *board.Board, m move.Move) bool {
	me := b.STM
	rv := b.MakeMove(m)
	ok := !b.InCheck(me)
	b.UndoMove(m, rv)
	return ok
}

func (r *rec) pseudo(b *board.Board) []move.Move {
	g := proj.Generated(b, r.ms)
	res := make([]move.Move, len(g))
	for i, e := range g {
		res[i] = move.Move(e)
	}
	return res
}

func (r *rec) tree(b *board.Board, d int) {
	if d == 0 || r.full() {
		return
	}
	for _, m := range r.pseudo(b) {
		if r.full() {
			break
		}
		legal := r.isLegal(b, m)
		rv := r.make(b, m, legal)
		if legal {
			r.tree(b, d-1)
		}
		r.undo(b, m, rv)
	}
	if !b.InCheck(b.STM) && !r.full() {
		rv := r.nullmake(b)
		r.nullundo(b, rv)
	}
}

func (r *rec) randomWalk(b *board.Board, depth int) {
	type fr struct {
		m    move.Move
		rv   board.Reverse
		null bool
	}
	var st []fr
	steps := depth * 3
	for i := 0; i < steps && !r.full(); i++ {
		// bias towards descending; unwind at the end
		if len(st) > 0 && (r.rng.Intn(3) == 0 || len(st) >= depth) {
			f := st[len(st)-1]
			st = st[:len(st)-1]
			if f.null {
				r.nullundo(b, f.rv)
			} else {
				r.undo(b, f.m, f.rv)
			}
			continue
		}
		if !b.InCheck(b.STM) && r.rng.Intn(6) == 0 && (len(st) == 0 || !st[len(st)-1].null) {
			st = append(st, fr{rv: r.nullmake(b), null: true})
			continue
		}
		ps := r.pseudo(b)
		if len(ps) == 0 {
			break
		}
		m := ps[r.rng.Intn(len(ps))]
		if r.rng.Intn(2) == 0 {
			m = r.pickPseudo(b, ps)
		}
		legal := r.isLegal(b, m)
		rv := r.make(b, m, legal)
		if !legal {
			r.undo(b, m, rv)
			continue
		}
		st = append(st, fr{m: m, rv: rv})
	}
	for len(st) > 0 {
		f := st[len(st)-1]
		st = st[:len(st)-1]
		if f.null {
			r.nullundo(b, f.rv)
		} else {
			r.undo(b, f.m, f.rv)
		}
	}
}

// pickQuiet prefers non-captures by pieces so that games last
func (r *rec) pickQuiet(b *board.Board, lm []move.Move) move.Move {
	var quiet []move.Move
	for _, x := range lm {
		if b.SquaresToPiece[x.To()] == NoPiece && b.SquaresToPiece[x.From()] != Pawn {
			quiet = append(quiet, x)
		}
	}
	if len(quiet) > 0 && r.rng.Intn(10) < 9 {
		return quiet[r.rng.Intn(len(quiet))]
	}
	return lm[r.rng.Intn(len(lm))]
}

func (r *rec) pickPseudo(b *board.Board, ps []move.Move) move.Move {
	return r.pick(b, ps)
}

// transp: two orders of commuting moves from one root (C04)
func (r *rec) transp(corpus []string) {
	for !r.full() {
		fen := r.source(corpus, false)
		b, err := board.FromFEN(fen)
		if err != nil {
			panic(err)
		}
		// advance a few random plies so that roots are game-like
		for i := r.rng.Intn(6); i > 0; i-- {
			lm := proj.Playable(b, r.ms)
			if len(lm) == 0 {
				break
			}
			b.MakeMove(lm[r.rng.Intn(len(lm))])
		}
		rootFen := b.FEN()
		root, err := board.FromFEN(rootFen)
		if err != nil {
			continue // clock beyond what a FEN may carry
		}
		// line A: a1 b1 a2 b2 (random legal); line B: a2 b1 a1 b2 and a1 b2 a2 b1 if playable
		var ma []move.Move
		bb, _ := board.FromFEN(rootFen)
		okLine := true
		for i := 0; i < 4; i++ {
			lm := proj.Playable(bb, r.ms)
			if len(lm) == 0 {
				okLine = false
				break
			}
			m := r.pick(bb, lm)
			ma = append(ma, m)
			bb.MakeMove(m)
		}
		if !okLine {
			continue
		}
		perms := [][]int{{2, 1, 0, 3}, {0, 3, 2, 1}, {2, 3, 0, 1}}
		for _, pm := range perms {
			mb := []move.Move{ma[pm[0]], ma[pm[1]], ma[pm[2]], ma[pm[3]]}
			cb, _ := board.FromFEN(rootFen)
			playable := true
			for _, m := range mb {
				if !contains(proj.Playable(cb, r.ms), m) {
					playable = false
					break
				}
				cb.MakeMove(m)
			}
			if !playable {
				continue
			}
			rp := rootPos(rootFen, root)
			a, bl := proj.Enc(ma), proj.Enc(mb)
			r.t++
			r.emit(&Ev{Ev: "transp", Fen: rootFen, Root: &rp, Ma: &a, Mb: &bl, Ha: proj.H(bb.Hash()), Hb: proj.H(cb.Hash())})
		}
		// null-move transposition: a, null, b, null  versus  b, null, a, null style (two movers of the same side)
		r.nullTransp(rootFen)
	}
}

func contains(l []move.Move, m move.Move) bool {
	for _, x := range l {
		if x == m {
			return true
		}
	}
	return false
}

func (r *rec) nullTransp(rootFen string) {
	root, _ := board.FromFEN(rootFen)
	if root.InCheck(root.STM) {
		return
	}
	lm := proj.Playable(root, r.ms)
	if len(lm) < 2 {
		return
	}
	m1 := lm[r.rng.Intn(len(lm))]
	m2 := lm[r.rng.Intn(len(lm))]
	run := func(seq []move.Move) (string, bool) {
		b, _ := board.FromFEN(rootFen)
		for _, m := range seq {
			if m == 0 {
				if b.InCheck(b.STM) {
					return "", false
				}
				b.MakeNullMove()
				continue
			}
			if !contains(proj.Playable(b, r.ms), m) {
				return "", false
			}
			b.MakeMove(m)
		}
		return proj.H(b.Hash()), true
	}
	a := []move.Move{m1, 0, m2, 0}
	bq := []move.Move{m2, 0, m1, 0}
	ha, ok1 := run(a)
	hb, ok2 := run(bq)
	if ok1 && ok2 {
		rp := rootPos(rootFen, root)
		ea, eb := proj.Enc(a), proj.Enc(bq)
		r.t++
		r.emit(&Ev{Ev: "transp", Fen: rootFen, Root: &rp, Ma: &ea, Mb: &eb, Ha: ha, Hb: hb})
	}
}

// shuffle: repetition-dense histories (C10)
// cycle3: three quiet moves of one piece of side c that bring it back to its square: a slider goes two squares
// along an empty ray, one back, and home; a king walks a triangle. nil if there is none (legality is for the caller).
func cycle3(rng *rand.Rand, b *board.Board, c Color) []move.Move {
	occ := b.Colors[White] | b.Colors[Black]
	empty := func(f, r int) bool { return f >= 0 && f < 8 && r >= 0 && r < 8 && occ&(BitBoard(1)<<uint(r*8+f)) == 0 }
	mv := func(a, z int) move.Move { return move.From(Square(a)) | move.To(Square(z)) }
	dirs := [][2]int{{1, 0}, {-1, 0}, {0, 1}, {0, -1}, {1, 1}, {1, -1}, {-1, 1}, {-1, -1}}
	var out [][]move.Move
	for sq := 0; sq < 64; sq++ {
		if b.Colors[c]&(BitBoard(1)<<uint(sq)) == 0 {
			continue
		}
		f, rk := sq%8, sq/8
		switch b.SquaresToPiece[sq] {
		case Queen, Rook, Bishop:
			for i, d := range dirs {
				if (b.SquaresToPiece[sq] == Rook && i >= 4) || (b.SquaresToPiece[sq] == Bishop && i < 4) {
					continue
				}
				if empty(f+d[0], rk+d[1]) && empty(f+2*d[0], rk+2*d[1]) {
					s1, s2 := (rk+d[1])*8+f+d[0], (rk+2*d[1])*8+f+2*d[0]
					out = append(out, []move.Move{mv(sq, s2), mv(s2, s1), mv(s1, sq)})
				}
			}
		case King:
			for _, d := range dirs[:4] {
				for _, e := range dirs[4:] {
					// sq -> sq+d -> sq+e -> sq needs sq+d adjacent to sq+e
					if empty(f+d[0], rk+d[1]) && empty(f+e[0], rk+e[1]) && abs(d[0]-e[0]) <= 1 && abs(d[1]-e[1]) <= 1 {
						s1, s2 := (rk+d[1])*8+f+d[0], (rk+e[1])*8+f+e[0]
						out = append(out, []move.Move{mv(sq, s1), mv(s1, s2), mv(s2, sq)})
					}
				}
			}
		}
	}
	if len(out) == 0 {
		return nil
	}
	return out[rng.Intn(len(out))]
}

func (r *rec) shuffle(corpus []string, plies int, rawEp bool) {
	for !r.full() {
		var b *board.Board
		var forced move.Move
		if r.rng.Intn(4) == 0 {
			fen, mv := gen.DeadEpStress(r.rng)
			b = r.load(fen)
			forced = move.From(Square(mv[0])) | move.To(Square(mv[1]))
		} else {
			b = r.load(r.source(corpus, rawEp))
		}
		var undoable []move.Move // reverses of recent reversible moves
		// take-back variant: now and then the last few moves are undone and another line is played (which, with the
		// bias towards moving pieces back, often transposes into the position just left, at the same ply); the
		// repetition count is asked for only now and then, not after every operation
		takeBack := r.rng.Intn(3) == 0
		r.sparseRep = takeBack
		type played struct {
			m  move.Move
			rv board.Reverse
		}
		var stack []played
		// triangulation: both sides bring a piece back to its square in THREE moves, so that the very first
		// position recurs after 6 plies (and, with one more there-and-back, after 10): recurrences that plain
		// oscillation (multiples of 4 plies) never produces
		var plan []move.Move
		if forced == 0 && r.rng.Intn(3) == 0 {
			w3 := cycle3(r.rng, b, b.STM)
			b3 := cycle3(r.rng, b, b.STM.Flip())
			if w3 != nil && b3 != nil {
				plan = []move.Move{w3[0], b3[0], w3[1], b3[1], w3[2], b3[2]}
				if r.rng.Intn(2) == 0 {
					plan = append(plan, w3[0], b3[0], move.From(w3[0].To())|move.To(w3[0].From()), move.From(b3[0].To())|move.To(b3[0].From()))
				}
			}
		}
		// two lines of equal length into the same position, one of which passes through that position on its way:
		//   a b a' b' a b   (the end position was there at ply 2 already)      - asked for the count - taken back -
		//   c d c' d' a b   (first time)                                       - asked again, nothing asked in between
		if forced == 0 && plan == nil && r.rng.Intn(4) == 0 {
			back := func(m move.Move) move.Move { return move.From(m.To()) | move.To(m.From()) }
			quietOf := func(avoid move.Move) move.Move {
				var q []move.Move
				for _, x := range proj.Playable(b, r.ms) {
					pc := b.SquaresToPiece[x.From()]
					if b.SquaresToPiece[x.To()] == NoPiece && pc != Pawn && pc != King && pc != Rook && (avoid == 0 || x.From() != avoid.From()) {
						q = append(q, x)
					}
				}
				if len(q) == 0 {
					return 0
				}
				return q[r.rng.Intn(len(q))]
			}
			try := func(line []move.Move, last bool) bool {
				var done []played
				ok := true
				for i, m := range line {
					if !contains(proj.Playable(b, r.ms), m) {
						ok = false
						break
					}
					r.noRep = i != len(line)-1 // asked only at the end of a line
					done = append(done, played{m, r.make(b, m, true)})
				}
				r.noRep = true
				if !ok || !last {
					for i := len(done) - 1; i >= 0; i-- {
						r.undo(b, done[i].m, done[i].rv)
					}
				} else {
					stack = append(stack, done...)
				}
				r.noRep = false
				return ok
			}
			wasSparse := r.sparseRep
			r.sparseRep = false
			if a := quietOf(0); a != 0 {
				rv := b.MakeMove(a)
				bm := quietOf(0)
				b.UndoMove(a, rv)
				c := quietOf(a)
				if bm != 0 && c != 0 {
					rv = b.MakeMove(c)
					d := quietOf(bm)
					b.UndoMove(c, rv)
					if d != 0 {
						if try([]move.Move{a, bm, back(a), back(bm), a, bm}, false) {
							try([]move.Move{c, d, back(c), back(d), a, bm}, true)
						}
					}
				}
			}
			r.sparseRep = wasSparse
		}
		for ply := 0; ply < plies && !r.full(); ply++ {
			if ply < len(plan) {
				if lm := proj.Playable(b, r.ms); contains(lm, plan[ply]) {
					undoable = append(undoable, plan[ply])
					stack = append(stack, played{plan[ply], r.make(b, plan[ply], true)})
					continue
				}
				plan = nil
			}
			if takeBack && len(stack) >= 2 && r.rng.Intn(6) == 0 {
				for k := 1 + r.rng.Intn(min(6, len(stack))); k > 0; k-- {
					top := stack[len(stack)-1]
					stack = stack[:len(stack)-1]
					r.undo(b, top.m, top.rv)
					if len(undoable) > 0 {
						undoable = undoable[:len(undoable)-1]
					}
				}
			}
			lm := proj.Playable(b, r.ms)
			if len(lm) == 0 {
				break
			}
			var m move.Move
			if ply == 0 && forced != 0 && contains(lm, forced) {
				undoable = append(undoable, forced)
				stack = append(stack, played{forced, r.make(b, forced, true)})
				continue
			}
			// prefer moving a piece back (oscillation); sometimes detour
			back := move.Move(0)
			if len(undoable) >= 2 {
				c := undoable[len(undoable)-2] // my own previous move
				back = move.From(c.To()) | move.To(c.From())
			}
			switch {
			case back != 0 && contains(lm, back) && r.rng.Intn(10) < 7:
				m = back
			default:
				var quiet []move.Move
				for _, x := range lm {
					if b.SquaresToPiece[x.To()] == NoPiece && b.SquaresToPiece[x.From()] != Pawn {
						quiet = append(quiet, x)
					}
				}
				if len(quiet) > 0 && r.rng.Intn(10) < 8 {
					m = quiet[r.rng.Intn(len(quiet))]
				} else {
					m = lm[r.rng.Intn(len(lm))]
				}
			}
			undoable = append(undoable, m)
			stack = append(stack, played{m, r.make(b, m, true)})
		}
		r.sparseRep = false
	}
}

// script: re-execute recorded driver inputs (replay files)
type script struct {
	Fen string `json:"fen"`
	Ops []struct {
		Op string `json:"op"`
		M  int    `json:"m"`
	} `json:"ops"`
}

func (r *rec) script(path string) {
	data, err := os.ReadFile(path)
	if err != nil {
		panic(err)
	}
	var scs []script
	if err := json.Unmarshal(data, &scs); err != nil {
		panic(err)
	}
	r.max = 1 << 30
	for _, sc := range scs {
		b := r.load(sc.Fen)
		type fr struct {
			m  move.Move
			rv board.Reverse
		}
		var st []fr
		for _, op := range sc.Ops {
			switch op.Op {
			case "make":
				m := move.Move(op.M)
				legal := r.isLegal(b, m)
				st = append(st, fr{m, r.make(b, m, legal)})
			case "undo":
				f := st[len(st)-1]
				st = st[:len(st)-1]
				r.undo(b, f.m, f.rv)
			case "nullmake":
				st = append(st, fr{0, r.nullmake(b)})
			case "nullundo":
				f := st[len(st)-1]
				st = st[:len(st)-1]
				r.nullundo(b, f.rv)
			}
		}
	}
}

// ---------------------------------------------------------------- UCI paths

// lineWriter collects driver output and lets the recorder wait for a line with a given prefix.
type lineWriter struct {
	mu    sync.Mutex
	buf   []byte
	lines []string
	ch    chan struct{}
}

func (w *lineWriter) Write(p []byte) (int, error) {
	w.mu.Lock()
	w.buf = append(w.buf, p...)
	for {
		i := bytes.IndexByte(w.buf, '\n')
		if i < 0 {
			break
		}
		w.lines = append(w.lines, string(w.buf[:i]))
		w.buf = w.buf[i+1:]
	}
	w.mu.Unlock()
	select {
	case w.ch <- struct{}{}:
	default:
	}
	return len(p), nil
}

func (w *lineWriter) has(prefix string) bool {
	w.mu.Lock()
	defer w.mu.Unlock()
	for _, l := range w.lines {
		if strings.HasPrefix(l, prefix) {
			return true
		}
	}
	return false
}

// runUCI feeds commands to a real uci.Driver and returns its output lines. A command of the form
// "@wait <prefix>" blocks until an output line with that prefix has been written (so that e.g. `quit`
// cannot abort a search whose completion is being observed).
func runUCI(script string, s uci.Search) []string {
	pr, pw := io.Pipe()
	out := &lineWriter{ch: make(chan struct{}, 1)}
	opts := []uci.DriverOpt{uci.WithInput(pr), uci.WithOutput(out), uci.WithError(io.Discard)}
	if s != nil {
		opts = append(opts, uci.WithSearch(s))
	}
	d := uci.NewDriver(opts...)
	done := make(chan struct{})
	go func() { d.Run(); close(done) }()
	for _, line := range strings.Split(strings.TrimRight(script, "\n"), "\n") {
		if strings.HasPrefix(line, "@wait ") {
			prefix := strings.TrimPrefix(line, "@wait ")
			deadline := time.After(60 * time.Second)
			for !out.has(prefix) {
				select {
				case <-out.ch:
				case <-time.After(20 * time.Millisecond):
				case <-deadline:
					panic("uci driver did not answer: " + prefix)
				}
			}
			continue
		}
		io.WriteString(pw, line+"\n")
	}
	pw.Close()
	<-done
	out.mu.Lock()
	defer out.mu.Unlock()
	return append([]string(nil), out.lines...)
}

func moveText(ms []move.Move) string {
	var sb strings.Builder
	for _, m := range ms {
		sb.WriteByte(' ')
		sb.WriteString(m.String())
	}
	return sb.String()
}

// game produces a root FEN and a legal move list (random or shuffling)
func (r *rec) game(corpus []string, plies int, shuffle bool, rawEp bool) (string, []move.Move) {
	for {
		fen := r.source(corpus, rawEp)
		if r.rng.Intn(4) == 0 {
			fen = StartPosFEN
		}
		b, err := board.FromFEN(fen)
		if err != nil || b.InvalidPieceCount() {
			continue
		}
		var ms []move.Move
		n := 1 + r.rng.Intn(plies)
		for i := 0; i < n; i++ {
			lm := proj.Playable(b, r.ms)
			if len(lm) == 0 {
				break
			}
			var m move.Move
			if shuffle && len(ms) >= 2 && r.rng.Intn(10) < 7 {
				c := ms[len(ms)-2]
				back := move.From(c.To()) | move.To(c.From())
				if contains(lm, back) {
					m = back
				}
			}
			if m == 0 {
				if shuffle {
					var quiet []move.Move
					for _, x := range lm {
						if b.SquaresToPiece[x.To()] == NoPiece && b.SquaresToPiece[x.From()] != Pawn {
							quiet = append(quiet, x)
						}
					}
					if len(quiet) > 0 && r.rng.Intn(10) < 8 {
						m = quiet[r.rng.Intn(len(quiet))]
					}
				}
				if m == 0 {
					m = r.pick(b, lm)
				}
			}
			ms = append(ms, m)
			b.MakeMove(m)
		}
		return fen, ms
	}
}

func (r *rec) uciEvent(kind, fen string, ms []move.Move) {
	root, err := board.FromFEN(fen)
	if err != nil {
		panic(err)
	}
	rp := rootPos(fen, root)
	cmd := "position fen " + fen
	if fen == StartPosFEN && r.rng.Intn(2) == 0 {
		cmd = "position startpos"
	}
	if len(ms) > 0 {
		cmd += " moves" + moveText(ms)
	}
	enc := proj.Enc(ms)
	r.t++
	switch kind {
	case "uciPosition":
		lines := runUCI(cmd+"\nfen\nquit\n", nil)
		r.emit(&Ev{Ev: "uciPosition", Fen: fen, Root: &rp, Moves: &enc, FenOut: lines[len(lines)-1]})
	case "uciRep":
		s := search.New(1 * transp.MegaBytes)
		lines := runUCI(cmd+"\ngo depth 1\n@wait bestmove\nquit\n", s)
		best := ""
		for _, l := range lines {
			if strings.HasPrefix(l, "bestmove ") {
				best = strings.Fields(l)[1]
			}
		}
		r.emit(&Ev{Ev: "uciRep", Fen: fen, Root: &rp, Moves: &enc, Best: best})
	}
}

// ucimoves: which move texts does `position fen F moves <text>` accept? Every from/to pair with every promotion
// letter (and none) is tried in ONE driver session; a text was accepted iff the position changed.
func (r *rec) ucimoves(corpus []string) {
	for !r.full() {
		fen := r.source(corpus, false)
		root, err := board.FromFEN(fen)
		if err != nil || root.InvalidPieceCount() {
			continue
		}
		r.movesEvent(fen)
	}
}

func (r *rec) movesEvent(fen string) {
	root, _ := board.FromFEN(fen)
	rp := rootPos(fen, root)
	base := root.FEN()
	var sb strings.Builder
	var encs []int
	for from := 0; from < 64; from++ {
		for to := 0; to < 64; to++ {
			for pi, pc := range []string{"", "n", "b", "r", "q"} {
				promo := []int{0, 2, 3, 4, 5}[pi]
				fmt.Fprintf(&sb, "position fen %s moves %c%c%c%c%s\nfen\n", fen, 'a'+from%8, '1'+from/8, 'a'+to%8, '1'+to/8, pc)
				encs = append(encs, promo*4096+from*64+to)
			}
		}
	}
	// malformed texts must change nothing
	junk := []string{"e2", "e2e", "e2e4qq", "e9e4", "i2e4", "e2e4k", "e2e4p", "e2e4x", "0000", "e2-e4", "E2E4"}
	for _, j := range junk {
		fmt.Fprintf(&sb, "position fen %s moves %s\nfen\n", fen, j)
		encs = append(encs, -1)
	}
	sb.WriteString("quit\n")
	lines := runUCI(sb.String(), nil)
	if len(lines) != len(encs) {
		panic(fmt.Sprintf("ucimoves: %d answers for %d questions", len(lines), len(encs)))
	}
	acc := []int{}
	junkAccepted := 0
	for i, l := range lines {
		if l != base {
			if encs[i] < 0 {
				junkAccepted++
			} else {
				acc = append(acc, encs[i])
			}
		}
	}
	r.t++
	r.emit(&Ev{Ev: "uciMoves", Fen: fen, Root: &rp, Acc: &acc, P1: &junkAccepted})
}

// uciperft: the driver's perft command (divide output + total) on sampled positions, depths 1 and 2
func (r *rec) uciperft(corpus []string) {
	for !r.full() {
		fen := r.source(corpus, false)
		root, err := board.FromFEN(fen)
		if err != nil || root.InvalidPieceCount() {
			continue
		}
		r.perftEvent(fen)
	}
}

func (r *rec) perftEvent(fen string) {
	root, err := board.FromFEN(fen)
	if err != nil {
		panic(err)
	}
	rp := rootPos(fen, root)
	// debug.Perft prints its per-move split straight to the process's stdout: keep that out of the way
	saved := os.Stdout
	if null, err := os.OpenFile(os.DevNull, os.O_WRONLY, 0); err == nil {
		os.Stdout = null
		defer func() { os.Stdout = saved; null.Close() }()
	}
	lines := runUCI("position fen "+fen+"\nperft 1\nperft 2\nquit\n", nil)
	var totals []int
	for i, l := range lines {
		if strings.HasSuffix(l, " nps") && i+1 < len(lines) {
			var v int
			fmt.Sscanf(lines[i+1], "%d", &v)
			totals = append(totals, v)
		}
	}
	if len(totals) != 2 {
		panic(fmt.Sprintf("perft output not understood: %q", lines))
	}
	r.t++
	r.emit(&Ev{Ev: "uciPerft", Fen: fen, Root: &rp, P1: &totals[0], P2: &totals[1]})
}

func (r *rec) ucipos(corpus []string, plies int) {
	for !r.full() {
		fen, ms := r.game(corpus, plies, r.rng.Intn(3) == 0, false)
		r.uciEvent("uciPosition", fen, ms)
	}
}

func (r *rec) ucirep(corpus []string, plies int) {
	for !r.full() {
		fen, ms := r.game(corpus, plies, true, true)
		r.uciEvent("uciRep", fen, ms)
	}
}

// reevent re-executes a self-contained event from its inputs (replay)
func (r *rec) reevent(path string) {
	data, err := os.ReadFile(path)
	if err != nil {
		panic(err)
	}
	var e Ev
	if err := json.Unmarshal(data, &e); err != nil {
		panic(err)
	}
	toMoves := func(p *[]int) []move.Move {
		var res []move.Move
		if p != nil {
			for _, x := range *p {
				res = append(res, move.Move(x))
			}
		}
		return res
	}
	switch e.Ev {
	case "uciPosition", "uciRep":
		r.uciEvent(e.Ev, e.Fen, toMoves(e.Moves))
	case "uciPerft":
		r.perftEvent(e.Fen)
	case "uciMoves":
		r.movesEvent(e.Fen)
	case "zkeys":
		r.zkeys()
	case "transp":
		run := func(seq []move.Move) string {
			b, _ := board.FromFEN(e.Fen)
			for _, m := range seq {
				if m == 0 {
					b.MakeNullMove()
				} else {
					b.MakeMove(m)
				}
			}
			return proj.H(b.Hash())
		}
		root, _ := board.FromFEN(e.Fen)
		rp := rootPos(e.Fen, root)
		r.t++
		r.emit(&Ev{Ev: "transp", Fen: e.Fen, Root: &rp, Ma: e.Ma, Mb: e.Mb, Ha: run(toMoves(e.Ma)), Hb: run(toMoves(e.Mb))})
	}
}

// enum: every placement of white king, black king and one piece x (code 1..5 white, 9..13 black), both sides
// to move, by index; per index the engine's playable-move count, the sum of their encodings and its direct
// checkmate (1) / stalemate (2) answer (0 otherwise). Indices that cannot be a position at all (coinciding
// squares, a pawn on a back rank, adjacent kings) are reported as -1; validity proper is decided by the spec.
func (r *rec) enum(x int, shard, nshards, every int) {
	const chunk = 2048
	r.max = 1 << 30
	for from := 0; from < 2*64*64*64; from += chunk {
		if (from/chunk)%nshards != shard || (from/chunk/nshards)%every != 0 {
			continue
		}
		cnt, sum, st := make([]int, chunk), make([]int, chunk), make([]int, chunk)
		for k := 0; k < chunk; k++ {
			i := from + k
			wk, bk, xs, stm := i%64, (i/64)%64, (i/4096)%64, i/262144
			cnt[k], sum[k], st[k] = -1, -1, -1
			if wk == bk || wk == xs || bk == xs || (x%8 == 1 && (xs/8 == 0 || xs/8 == 7)) {
				continue
			}
			if d := wk%8 - bk%8; d >= -1 && d <= 1 {
				if e := wk/8 - bk/8; e >= -1 && e <= 1 {
					continue
				}
			}
			bd := make([]int, 64)
			bd[wk], bd[bk], bd[xs] = 6, 14, x
			if gen.Attacked(bd, []int{wk, bk}[1-stm], stm) {
				continue // side not to move in check: not a position
			}
			b, err := board.FromFEN(gen.FEN(bd, stm, 0, -1, 0, 1))
			if err != nil {
				panic(err)
			}
			lm := proj.Playable(b, r.ms)
			cnt[k], sum[k], st[k] = len(lm), 0, 0
			for _, m := range lm {
				sum[k] += int(m)
			}
			if b.InCheck(b.STM) {
				if b.IsCheckmate() {
					st[k] = 1
				}
			} else if b.IsStalemate() {
				st[k] = 2
			}
		}
		r.t++
		r.emit(&Ev{Ev: "enum", X: x, From: from, Cnt: &cnt, Sum: &sum, St: &st})
	}
}

// list: load every corpus entry in file order
func (r *rec) list(corpus []string) {
	r.max = 1 << 30
	for _, fen := range corpus {
		if _, err := board.FromFEN(fen); err != nil {
			// a canonical FEN of a valid position that the engine refuses is an observation, not a broken corpus
			if bd, stm, cr, ep, hm, fm, ok := gen.ParseCanonFEN(fen); ok {
				p := proj.Pos{Bd: bd, Stm: stm, Cr: cr, Ep: ep, Hm: hm, Fm: fm}
				r.t++
				r.emit(&Ev{Ev: "fenRejected", Fen: fen, Pos: &p})
				continue
			}
		}
		r.load(fen)
	}
}

// panicInEngine: is the innermost non-runtime frame of the panic inside the chess-3 module?
func panicInEngine(st string) bool {
	lines := strings.Split(st, "\n")
	seenPanic := false
	for _, l := range lines {
		l = strings.TrimSpace(l)
		if strings.HasPrefix(l, "panic(") {
			seenPanic = true
			continue
		}
		if !seenPanic || !strings.HasPrefix(l, "/") {
			continue
		}
		if strings.Contains(l, "/runtime/") || strings.Contains(l, "/src/") && strings.Contains(l, "go1.") {
			continue
		}
		return !strings.Contains(l, "/verif/")
	}
	return false
}

func firstFrames(st string) string {
	var keep []string
	for _, l := range strings.Split(st, "\n") {
		l = strings.TrimSpace(l)
		if strings.HasPrefix(l, "/") && !strings.Contains(l, "/runtime/") {
			keep = append(keep, l)
			if len(keep) >= 4 {
				break
			}
		}
	}
	return strings.Join(keep, " <- ")
}

func main() {
	mode := flag.String("mode", "play", "play|positions|walk|transp|shuffle|script")
	obs := flag.String("obs", "legal", "comma separated observations: legal,gen,status,rep,hash,hashes,fen,canon")
	n := flag.Int("n", 1000, "number of events")
	seed := flag.Int64("seed", 1, "random seed")
	plies := flag.Int("plies", 60, "plies per game / walk depth")
	corpusPath := flag.String("corpus", "", "corpus file (FEN per line)")
	rawEp := flag.Bool("rawep", false, "keep en-passant targets that are not capturable in generated roots")
	in := flag.String("in", "", "script file for -mode script")
	enumX := flag.Int("x", 5, "enum: the third piece (1..5 white, 9..13 black)")
	shardF := flag.Int("shard", 0, "enum: shard")
	nshardsF := flag.Int("nshards", 1, "enum: shards")
	everyF := flag.Int("every", 1, "enum: take every n-th chunk of this shard")
	out := flag.String("out", "", "output file (default stdout)")
	flag.Parse()

	var f *os.File = os.Stdout
	if *out != "" {
		var err error
		f, err = os.Create(*out)
		if err != nil {
			panic(err)
		}
		defer f.Close()
	}
	w := bufio.NewWriterSize(f, 1<<20)
	defer w.Flush()
	r := &rec{w: w, enc: json.NewEncoder(w), obs: map[string]bool{}, ms: move.NewStore(), max: *n, rng: rand.New(rand.NewSource(*seed)), seed: *seed}
	for _, o := range strings.Split(*obs, ",") {
		if o != "" {
			r.obs[o] = true
		}
	}
	// a panic inside the engine during a valid call sequence is an observation, not a recorder failure
	defer func() {
		if x := recover(); x != nil {
			st := string(debug.Stack())
			engine := panicInEngine(st)
			r.emit(&Ev{Ev: "panic", Msg: fmt.Sprint(x) + " | " + firstFrames(st), Engine: &engine, Fen: r.root})
			w.Flush()
			f.Close()
			fmt.Fprintln(os.Stderr, "panic recorded:", x)
			os.Exit(0)
		}
	}()
	var corpus []string
	if *corpusPath != "" {
		corpus = gen.LoadCorpus(*corpusPath)
	}
	switch *mode {
	case "play":
		r.play(corpus, *plies, *rawEp)
	case "positions":
		r.positions(corpus, *rawEp)
	case "walk":
		r.walk(corpus, *plies)
	case "transp":
		r.transp(corpus)
	case "shuffle":
		r.shuffle(corpus, *plies, *rawEp)
	case "script":
		r.script(*in)
	case "ucipos":
		r.ucipos(corpus, *plies)
	case "ucirep":
		r.ucirep(corpus, *plies)
	case "uciperft":
		r.uciperft(corpus)
	case "ucimoves":
		r.ucimoves(corpus)
	case "reevent":
		r.reevent(*in)
	case "zkeys":
		r.zkeys()
	case "list":
		r.list(corpus)
	case "enum":
		r.enum(*enumX, *shardF, *nshardsF, *everyF)
	case "fens":
		// plain FEN lines (one per line) of generated valid positions and of positions along random games
		r.plain = true
		w.Flush()
		for i := 0; i < *n; {
			src := r.source(corpus, false)
			var push move.Move
			if r.rng.Intn(4) == 0 {
				// a position with an en-passant target: right after a capturable double push
				fen, mv := gen.EpStress2(r.rng)
				src, push = fen, move.From(Square(mv[0]))|move.To(Square(mv[1]))
			}
			b, err := board.FromFEN(src)
			if err != nil {
				fmt.Fprintln(w, src)
				i++
				continue
			}
			if push != 0 && contains(proj.Playable(b, r.ms), push) {
				b.MakeMove(push)
			}
			for ply := 0; ply < 3 && i < *n; ply++ {
				if b.FiftyCnt <= 100 {
					fmt.Fprintln(w, b.FEN())
					i++
				}
				lm := proj.Playable(b, r.ms)
				if len(lm) == 0 {
					break
				}
				b.MakeMove(r.pick(b, lm))
			}
		}
		return
	default:
		panic("unknown mode")
	}
	fmt.Fprintln(os.Stderr, "events", r.n, "traces", r.t)
}

func abs(x int) int {
	if x < 0 {
		return -x
	}
	return x
}
