// rec-time records the time budget the real driver computes (property C14) for validation
// against TimeTrace.tla: uci.VerifLimits on a dense boundary grid and random values up to
// 10^12 ms, the same clock under varied opponent clocks, and `go wtime ...` through a real
// uci.Driver with a mock search that reports the soft time it was handed.
package main

import (
	"bufio"
	"bytes"
	"encoding/json"
	"flag"
	"fmt"
	"io"
	"math/rand"
	"os"
	"strings"
	"sync"
	"time"

	"github.com/paulsonkoly/chess-3/board"
	. "github.com/paulsonkoly/chess-3/chess"
	"github.com/paulsonkoly/chess-3/move"
	"github.com/paulsonkoly/chess-3/movegen"
	"github.com/paulsonkoly/chess-3/search"
	"github.com/paulsonkoly/chess-3/uci"
)

type L [2]int64

func limb(v int64) L { return L{v >> 20, v & (1<<20 - 1)} }

type Alt struct {
	Soft L `json:"soft"`
	Hard L `json:"hard"`
}
type Ev struct {
	W     L     `json:"w"`
	B     L     `json:"b"`
	Wi    L     `json:"wi"`
	Bi    L     `json:"bi"`
	Mt    L     `json:"mt"`
	Stm   int   `json:"stm"`
	Timed bool  `json:"timed"`
	Soft  L     `json:"soft"`
	Hard  L     `json:"hard"`
	Alt   []Alt `json:"alt"`
	Drv   *L    `json:"drv,omitempty"`
	Dl    *Dl   `json:"dl,omitempty"`
	Seq   *Seq  `json:"seq,omitempty"`
}

// Seq: a clock state sent as the SECOND go of a session whose first go carried other limits
type Seq struct {
	First string `json:"first"`
	Got   L      `json:"got"` // soft time handed to the second search
	N     int    `json:"n"`   // searches run in the session
}

// Dl is one deadline probe: a blocking search under `go wtime ...` while the GUI keeps talking.
type Dl struct {
	Kind    string `json:"kind"`    // what the GUI sends while the search runs
	Ponder  bool   `json:"ponder"`  // go ponder ... ponderhit: the deadline counts from the ponderhit
	Hard    int64  `json:"hard"`    // ms, from VerifLimits
	Slack   int64  `json:"slack"`   // ms granted for scheduling noise
	Lines   int    `json:"lines"`   // input lines sent while the search was running
	ByTimer bool   `json:"byTimer"` // the stop channel closed while we were still only sending harmless lines
	After   int64  `json:"after"`   // ms from go (or ponderhit) to the close of the stop channel
}

// blockSearch blocks until the driver closes the stop channel.
type blockSearch struct {
	started chan struct{}
	stopped chan time.Time
	oddPly  bool // sit one ply below the root while blocked, as a real search does half of the time
}

func (m *blockSearch) Go(b *board.Board, opts ...search.Option) (Score, move.Move, move.Move) {
	o := search.Options{}
	for _, f := range opts {
		f(&o)
	}
	if m.oddPly {
		ms := move.NewStore()
		ms.Push()
		movegen.GenNotNoisy(ms, b)
		if fr := ms.Frame(); len(fr) > 0 {
			mv := fr[0].Move
			rv := b.MakeMove(mv)
			defer b.UndoMove(mv, rv)
		}
	}
	close(m.started)
	<-o.Stop
	m.stopped <- time.Now()
	return 0, 0, 0
}
func (m *blockSearch) Clear()       {}
func (m *blockSearch) ResizeTT(int) {}

// deadlineProbe: the hard deadline must end the search however many (harmless) lines the GUI
// sends meanwhile. No assertion on being early or exact: only "not later than hard + slack".
func deadlineProbe(kind string, ponder bool, wtime int64, slack int64) Dl {
	return deadlineProbe2(kind, ponder, wtime, wtime, false, slack)
}

// deadlineProbe2: clocks may differ; oddPly: the search is one ply below the root when the deadline is armed
func deadlineProbe2(kind string, ponder bool, wtime, btime int64, oddPly bool, slack int64) Dl {
	_, _, hard := uci.VerifLimits(wtime, btime, 0, 0, 0, White)
	ms := &blockSearch{started: make(chan struct{}), stopped: make(chan time.Time, 1), oddPly: oddPly}
	pr, pw := io.Pipe()
	done := make(chan struct{})
	d := uci.NewDriver(uci.WithInput(pr), uci.WithOutput(io.Discard), uci.WithError(io.Discard), uci.WithSearch(ms))
	go func() { d.Run(); close(done) }()
	if ponder {
		fmt.Fprintf(pw, "setoption name Ponder value true\n")
		fmt.Fprintf(pw, "go ponder wtime %d btime %d\n", wtime, btime)
	} else {
		fmt.Fprintf(pw, "go wtime %d btime %d\n", wtime, btime)
	}
	<-ms.started
	if ponder {
		time.Sleep(50 * time.Millisecond)
		fmt.Fprintf(pw, "ponderhit\n")
	}
	t0 := time.Now()
	res := Dl{Kind: kind, Ponder: ponder, Hard: hard, Slack: slack}
	line := map[string]string{"isready": "isready\n", "unknown": "xyzzy 1 2 3\n", "debug": "debug on\n", "none": ""}[kind]
	tick := time.NewTicker(15 * time.Millisecond)
	defer tick.Stop()
	limit := time.After(time.Duration(hard+slack) * time.Millisecond)
	var at time.Time
loop:
	for {
		select {
		case at = <-ms.stopped:
			res.ByTimer = true
			break loop
		case <-limit:
			fmt.Fprintf(pw, "stop\n")
			at = <-ms.stopped
			break loop
		case <-tick.C:
			if line != "" {
				fmt.Fprint(pw, line)
				res.Lines++
			}
		}
	}
	res.After = at.Sub(t0).Milliseconds()
	fmt.Fprintf(pw, "quit\n")
	pw.Close()
	<-done
	return res
}

type mockSearch struct{ soft int64 }

func (m *mockSearch) Go(b *board.Board, opts ...search.Option) (Score, move.Move, move.Move) {
	o := search.Options{}
	for _, f := range opts {
		f(&o)
	}
	m.soft = o.SoftTime
	return 0, 0, 0
}
func (m *mockSearch) Clear()       {}
func (m *mockSearch) ResizeTT(int) {}

func driverSoft(w, b, wi, bi, mt int64, stm int) int64 {
	ms := &mockSearch{}
	var sb strings.Builder
	if stm == 1 {
		sb.WriteString("position startpos moves e2e4\n")
	}
	sb.WriteString("go")
	if mt > 0 {
		fmt.Fprintf(&sb, " movetime %d", mt)
	}
	fmt.Fprintf(&sb, " wtime %d btime %d winc %d binc %d\nquit\n", w, b, wi, bi)
	var out bytes.Buffer
	d := uci.NewDriver(uci.WithInput(strings.NewReader(sb.String())), uci.WithOutput(&out), uci.WithError(io.Discard), uci.WithSearch(ms))
	d.Run()
	return ms.soft
}

// seqSearch records the soft time of every Go call of one driver session.
type seqSearch struct{ softs []int64 }

func (m *seqSearch) Go(b *board.Board, opts ...search.Option) (Score, move.Move, move.Move) {
	o := search.Options{}
	for _, f := range opts {
		f(&o)
	}
	m.softs = append(m.softs, o.SoftTime)
	return 0, 0, 0
}
func (m *seqSearch) Clear()       {}
func (m *seqSearch) ResizeTT(int) {}

var firsts = []string{"go movetime 777777", "go wtime 1 btime 1 winc 999 binc 999", "go depth 1", "go wtime 999999999 btime 999999999", "go movetime 1"}

func seqOf(first string, wt, bt, wi, bi, mt int64) *Seq {
	second := "go"
	if mt > 0 {
		second += fmt.Sprintf(" movetime %d", mt)
	}
	second += fmt.Sprintf(" wtime %d btime %d winc %d binc %d", wt, bt, wi, bi)
	softs := driverSession([]string{first, second})
	sq := Seq{First: first, N: len(softs)}
	if len(softs) == 2 {
		sq.Got = limb(softs[1])
	}
	return &sq
}

// driverSession: several `go` commands through ONE driver, each sent after the previous one was answered (a
// command sent while a search runs belongs to that search); what the search is handed for each of them
func driverSession(gos []string) []int64 {
	ms := &seqSearch{}
	pr, pw := io.Pipe()
	out := &lockedBuf{}
	d := uci.NewDriver(uci.WithInput(pr), uci.WithOutput(out), uci.WithError(io.Discard), uci.WithSearch(ms))
	done := make(chan struct{})
	go func() { d.Run(); close(done) }()
	for i, g := range gos {
		fmt.Fprintf(pw, "%s\n", g)
		for k := 0; k < 200000 && strings.Count(out.String(), "bestmove") < i+1; k++ {
			time.Sleep(50 * time.Microsecond)
		}
	}
	fmt.Fprintf(pw, "quit\n")
	pw.Close()
	<-done
	return ms.softs
}

type lockedBuf struct {
	mu  sync.Mutex
	buf bytes.Buffer
}

func (l *lockedBuf) Write(p []byte) (int, error) {
	l.mu.Lock()
	defer l.mu.Unlock()
	return l.buf.Write(p)
}
func (l *lockedBuf) String() string {
	l.mu.Lock()
	defer l.mu.Unlock()
	return l.buf.String()
}

func main() {
	shard := flag.Int("shard", 0, "")
	nshards := flag.Int("nshards", 1, "")
	nrand := flag.Int("rand", 20000, "random clock states (whole run)")
	ndrv := flag.Int("drv", 300, "states also sent through a real driver (whole run)")
	seed := flag.Int64("seed", 1, "")
	out := flag.String("out", "", "")
	one := flag.String("one", "", "replay a single clock state: w,b,wi,bi,mt,stm")
	dlOnly := flag.Bool("deadline", false, "only the deadline probes")
	flag.Parse()
	f, err := os.Create(*out)
	if err != nil {
		panic(err)
	}
	defer f.Close()
	w := bufio.NewWriterSize(f, 1<<20)
	defer w.Flush()
	enc := json.NewEncoder(w)
	rng := rand.New(rand.NewSource(*seed))
	n := 0
	emit := func(own, inc, mt int64, stm int, drv bool) {
		n++
		// the opponent's clock is drawn for every state so that all shards see the same stream
		opp, oinc := 1+rng.Int63n(1_000_000), rng.Int63n(100_000)
		// other states of the OPPONENT's clock, including "not reported" (0) and nonsense (negative)
		alts := [][2]int64{{1, 0}, {opp * 7, oinc + 13}, {1_000_000_000_000, 1_000_000_000}, {own, inc}, {29, 1}, {0, 0}, {-5, -5}, {0, 1000}}
		if n%*nshards != *shard {
			return
		}
		mk := func(o, oi int64) (int64, int64, int64, int64) {
			if stm == 0 {
				return own, o, inc, oi
			}
			return o, own, oi, inc
		}
		wt, bt, wi, bi := mk(opp, oinc)
		timed, soft, hard := uci.VerifLimits(wt, bt, wi, bi, mt, Color(stm))
		e := Ev{W: limb(wt), B: limb(bt), Wi: limb(wi), Bi: limb(bi), Mt: limb(mt), Stm: stm, Timed: timed, Soft: limb(soft), Hard: limb(hard), Alt: []Alt{}}
		for _, a := range alts {
			w2, b2, wi2, bi2 := mk(a[0], a[1])
			_, s2, h2 := uci.VerifLimits(w2, b2, wi2, bi2, mt, Color(stm))
			e.Alt = append(e.Alt, Alt{limb(s2), limb(h2)})
		}
		if drv {
			d := limb(driverSoft(wt, bt, wi, bi, mt, stm))
			e.Drv = &d
			if stm == 0 {
				// the same clock as the second go of a session: what came first must not matter
				e.Seq = seqOf(firsts[n%len(firsts)], wt, bt, wi, bi, mt)
			}
		}
		if err := enc.Encode(e); err != nil {
			panic(err)
		}
	}
	if (*shard == 0 && *one == "") || *dlOnly {
		// deadline probes, concurrently (they mostly sleep)
		type pr struct {
			kind   string
			ponder bool
			wtime  int64
			btime  int64
			odd    bool
		}
		probes := []pr{{"isready", false, 3000, 3000, false}, {"unknown", false, 4500, 4500, false}, {"debug", false, 2000, 2000, false}, {"none", false, 3000, 3000, false},
			{"isready", true, 3000, 3000, false}, {"unknown", true, 2400, 2400, false},
			// the opponent has all the time in the world, and the search is at an odd ply when the deadline is armed
			{"none", true, 3000, 600000, true}, {"isready", false, 2400, 900000, true}, {"none", true, 2000, 2000, true}}
		res := make([]Dl, len(probes))
		var wg sync.WaitGroup
		for i, p := range probes {
			wg.Add(1)
			go func() {
				defer wg.Done()
				res[i] = deadlineProbe2(p.kind, p.ponder, p.wtime, p.btime, p.odd, 5000)
			}()
		}
		wg.Wait()
		for i := range res {
			if err := enc.Encode(Ev{Alt: []Alt{}, Dl: &res[i]}); err != nil {
				panic(err)
			}
		}
		if *dlOnly {
			return
		}
	}
	if *one != "" {
		var wv, bv, wiv, biv, mtv int64
		var st int
		fmt.Sscanf(*one, "%d,%d,%d,%d,%d,%d", &wv, &bv, &wiv, &biv, &mtv, &st)
		timed, soft, hard := uci.VerifLimits(wv, bv, wiv, biv, mtv, Color(st))
		e := Ev{W: limb(wv), B: limb(bv), Wi: limb(wiv), Bi: limb(biv), Mt: limb(mtv), Stm: st, Timed: timed, Soft: limb(soft), Hard: limb(hard), Alt: []Alt{}}
		own, inc := wv, wiv
		if st == 1 {
			own, inc = bv, biv
		}
		for _, a := range [][2]int64{{1, 0}, {777, 13}, {1_000_000_000_000, 1_000_000_000}, {own, inc}, {29, 1}, {0, 0}, {-5, -5}, {0, 1000}} {
			w2, b2, wi2, bi2 := own, a[0], inc, a[1]
			if st == 1 {
				w2, b2, wi2, bi2 = a[0], own, a[1], inc
			}
			_, s2, h2 := uci.VerifLimits(w2, b2, wi2, bi2, mtv, Color(st))
			e.Alt = append(e.Alt, Alt{limb(s2), limb(h2)})
		}
		d := limb(driverSoft(wv, bv, wiv, biv, mtv, st))
		e.Drv = &d
		enc.Encode(e)
		if st == 0 {
			for _, f := range firsts {
				e.Seq = seqOf(f, wv, bv, wiv, biv, mtv)
				enc.Encode(e)
			}
		}
		return
	}
	// dense boundary grid around the margin and the clamp break-points
	var ts []int64
	for t := int64(1); t <= 200; t++ {
		ts = append(ts, t)
	}
	for k := int64(7); k <= 400; k += 13 {
		for d := int64(-2); d <= 2; d++ {
			ts = append(ts, k*30+d)
		}
	}
	for k := uint(8); k <= 39; k++ {
		for d := int64(-1); d <= 1; d++ {
			ts = append(ts, int64(1)<<k+d)
		}
	}
	incs := []int64{0, 1, 2, 3, 14, 15, 16, 29, 30, 31, 59, 60, 61, 100, 999, 1000, 5000, 60000, 1_000_000, 1_000_000_000}
	for _, t := range ts {
		for _, inc := range incs {
			// break-points where 4*(t/30+inc/2) crosses t-30 are hit by sweeping t for each inc
			for stm := 0; stm < 2; stm++ {
				emit(t, inc, 0, stm, false)
			}
		}
		emit(t, 0, t, int(t%2), false)     // movetime present
		emit(t, 7, 1+t/2, int(t%2), false) // movetime different from the clock
	}
	// break-points: t such that 4*(t/30+inc/2) ~ t-30  <=>  t ~ 30 + 2*inc*... sweep around them
	for _, inc := range incs[:18] {
		c := (60*inc + 900) / 26 // solution of 4*(t/30 + inc/2) = t - 30 ignoring truncation
		for d := int64(-40); d <= 40; d++ {
			if c+d >= 1 {
				emit(c+d, inc, 0, int((c+d)%2), false)
			}
		}
	}
	for i := 0; i < *nrand; i++ {
		var t int64
		switch rng.Intn(4) {
		case 0:
			t = 1 + rng.Int63n(2000)
		case 1:
			t = 1 + rng.Int63n(10_000_000)
		case 2:
			t = 1 + rng.Int63n(900_000_000)
		default:
			t = 1 + rng.Int63n(1_000_000_000_000)
		}
		inc := []int64{0, rng.Int63n(100), rng.Int63n(100_000), rng.Int63n(1_000_000_001)}[rng.Intn(4)]
		mt := int64(0)
		if rng.Intn(5) == 0 {
			mt = 1 + rng.Int63n(1_000_000_000_000)
		}
		emit(t, inc, mt, rng.Intn(2), i < *ndrv)
	}
}
