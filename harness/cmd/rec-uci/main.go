// rec-uci drives a real uci.Driver over pipes with scenario scripts from a grammar of conforming GUI
// behaviour and records the OBSERVABLE events of each run for validation against UciTrace.tla (C13):
// commands sent, lines arriving on stdout, the steps of a controllable mock search, termination.
// The driver's own goroutines are not instrumented; TLC infers their steps.
package main

import (
	"bufio"
	"encoding/json"
	"flag"
	"fmt"
	"io"
	"math/rand"
	"os"
	"regexp"
	"runtime"
	"strings"
	"sync"
	"sync/atomic"
	"time"

	"github.com/paulsonkoly/chess-3/board"
	. "github.com/paulsonkoly/chess-3/chess"
	"github.com/paulsonkoly/chess-3/move"
	"github.com/paulsonkoly/chess-3/search"
	"github.com/paulsonkoly/chess-3/uci"
)

type Ev struct {
	Ev       string `json:"ev"`
	T        int    `json:"t"`
	C        string `json:"c,omitempty"`
	Kind     string `json:"kind,omitempty"`
	R        bool   `json:"r"`
	Mock     bool   `json:"mock"`
	UciLines int    `json:"ucilines,omitempty"`
	Text     string `json:"text,omitempty"`
	What     string `json:"what,omitempty"`
	Seed     int64  `json:"seed,omitempty"`
}

// ---- event log: one global order, taken under a mutex
type logT struct {
	mu  sync.Mutex
	evs []Ev
	t   int
}

func (l *logT) add(e Ev) {
	l.mu.Lock()
	e.T = l.t
	l.evs = append(l.evs, e)
	l.mu.Unlock()
}

// ---- stdout sink: logs every complete line after it arrived
var (
	reInfo  = regexp.MustCompile(`^info depth \d+( score (cp -?\d+|mate -?\d+))? nodes \d+( time \d+ hashfull \d+ pv ?([a-h][1-8][a-h][1-8][nbrq]?( [a-h][1-8][a-h][1-8][nbrq]?)*)?)?$`)
	reBest  = regexp.MustCompile(`^bestmove ([a-h][1-8][a-h][1-8][nbrq]?|0000)( ponder [a-h][1-8][a-h][1-8][nbrq]?)?$`)
	reLines = regexp.MustCompile(`^(id name .*|id author .*|option name .*|uciok|cp -?\d+|mate -?\d+|[1-8pnbrqkPNBRQK/]+ [wb] [KQkq-]+ ([a-h][36]|-) \d+ \d+)$`)
)

type sink struct {
	log   *logT
	buf   []byte
	slow  time.Duration
	nw    int
	nBest int32
	nRdy  int32
	nLine int32
	nTorn int32
	nInfo int32
}

func classify(line string) string {
	switch {
	case line == "readyok":
		return "readyok"
	case reInfo.MatchString(line):
		return "info"
	case reBest.MatchString(line):
		return "bestmove"
	case reLines.MatchString(line):
		return "line"
	}
	return "torn"
}

func (s *sink) Write(p []byte) (int, error) {
	if s.slow > 0 {
		time.Sleep(s.slow)
		s.nw++
		if s.nw%5 == 0 {
			time.Sleep(3 * time.Millisecond) // a reader that stalls now and then: the output channel fills up
		}
	}
	s.buf = append(s.buf, p...)
	for {
		i := strings.IndexByte(string(s.buf), '\n')
		if i < 0 {
			break
		}
		line := string(s.buf[:i])
		s.buf = s.buf[i+1:]
		k := classify(line)
		e := Ev{Ev: "out", Kind: k}
		if k == "torn" {
			e.Text = line
		}
		// log first, count afterwards: the runner acts on the counters, and what it then does must be
		// logged after the line that caused it
		s.log.add(e)
		switch k {
		case "bestmove":
			atomic.AddInt32(&s.nBest, 1)
		case "readyok":
			atomic.AddInt32(&s.nRdy, 1)
		case "line":
			atomic.AddInt32(&s.nLine, 1)
		case "torn":
			atomic.AddInt32(&s.nTorn, 1)
		case "info":
			atomic.AddInt32(&s.nInfo, 1)
		}
	}
	return len(p), nil
}

// ---- controllable mock search
type mock struct {
	async  bool // info: acknowledge before writing, so that the next GUI command races with the write
	long   bool // info lines as long as those of a deep search
	log    *logT
	ctl    chan string
	ack    chan bool
	active int32
}

func (m *mock) Clear()       {}
func (m *mock) ResizeTT(int) {}
func (m *mock) Go(b *board.Board, opts ...search.Option) (Score, move.Move, move.Move) {
	o := search.Options{}
	for _, f := range opts {
		f(&o)
	}
	m.log.add(Ev{Ev: "sStart"})
	atomic.StoreInt32(&m.active, 1)
	defer atomic.StoreInt32(&m.active, 0)
	ponder := o.PonderHit
	for d := range m.ctl {
		switch d {
		case "info":
			m.log.add(Ev{Ev: "sInfo"})
			if m.async {
				// the runner goes on at once: what the GUI sends next races with this line getting onto the output
				// channel (UciTrace: the announced line is owed; the enqueue is a hidden step)
				m.ack <- false
			}
			// short lines and lines as long as a deep search prints them (a variation of 60 moves: ~350 bytes)
			if m.long {
				fmt.Fprintf(o.Output, "info depth 60 score cp 12 nodes 123456789 time 12345 hashfull 999 pv%s\n", strings.Repeat(" e2e4 e7e5 g1f3 b8c6", 15))
			} else {
				fmt.Fprintf(o.Output, "info depth 1 score cp 12 nodes 20 time 0 hashfull 0 pv e2e4 e7e5\n")
			}
			if m.async {
				continue
			}
		case "poll":
			select {
			case <-o.Stop:
				m.log.add(Ev{Ev: "sPollStop", R: true})
				m.ack <- true
				return 0, move.From(E2) | move.To(E4), 0
			default:
				m.log.add(Ev{Ev: "sPollStop", R: false})
			}
		case "ponder":
			hit := false
			if ponder != nil {
				select {
				case <-ponder:
					ponder = nil
					hit = true
				default:
				}
			}
			m.log.add(Ev{Ev: "sPollPonder", R: hit})
		case "finish":
			m.log.add(Ev{Ev: "sRet"})
			m.ack <- true
			return 0, move.From(E2) | move.To(E4), move.From(E7) | move.To(E5)
		}
		m.ack <- false
	}
	return 0, 0, 0
}

// asyncPipe: the GUI never blocks on stdin (an OS pipe buffers; io.Pipe alone is a rendezvous)
type asyncPipe struct {
	ch chan string
	pw *io.PipeWriter
}

func newAsyncPipe(pw *io.PipeWriter) *asyncPipe {
	a := &asyncPipe{ch: make(chan string, 4096), pw: pw}
	go func() {
		for s := range a.ch {
			if _, err := io.WriteString(pw, s); err != nil {
				break
			}
		}
		pw.Close()
		for range a.ch {
		}
	}()
	return a
}
func (a *asyncPipe) WriteString(s string) { a.ch <- s }
func (a *asyncPipe) Close() {
	defer func() { recover() }()
	close(a.ch)
}

// ---- one scenario
type runner struct {
	rng  *rand.Rand
	ws   *rand.Rand // white space choices (see pad)
	log  *logT
	out  *sink
	in   *asyncPipe
	m    *mock
	real bool
	done chan struct{}

	goSent, isrSent, linesDue int
	ponderOn, lastGoPonder    bool
	searchLive                bool // a go has been sent whose bestmove has not been seen yet
	mockRunning               bool
	quit                      bool
	ucilines                  int
}

const patience = 20 * time.Second

func (r *runner) send(c, text string) {
	r.log.add(Ev{Ev: "send", C: c})
	r.in.WriteString(r.pad(text) + "\n")
}

// pad rewrites the white space of a command: the protocol allows arbitrary white space (blanks and tabs) between
// tokens, before the first and after the last one.  One command in five is sent that way; the choices come from
// a generator of their own so that the scenarios themselves are the same as without padding.
func (r *runner) pad(text string) string {
	if r.ws == nil || r.ws.Intn(5) != 0 {
		return text
	}
	gap := func(min int) string {
		n := min + r.ws.Intn(3)
		b := make([]byte, n)
		for i := range b {
			b[i] = " \t"[r.ws.Intn(2)]
		}
		return string(b)
	}
	out := gap(0)
	for i, f := range strings.Fields(text) {
		if i > 0 {
			out += gap(1)
		}
		out += f
	}
	return out + gap(0)
}

func (r *runner) waitFor(cond func() bool, what string) bool {
	deadline := time.Now().Add(patience)
	for !cond() {
		if time.Now().After(deadline) {
			r.log.add(Ev{Ev: "timeout", What: what})
			return false
		}
		time.Sleep(50 * time.Microsecond)
	}
	return true
}

func (r *runner) jitter() {
	switch r.rng.Intn(6) {
	case 0:
		time.Sleep(time.Duration(r.rng.Intn(300)) * time.Microsecond)
	case 1:
		time.Sleep(time.Duration(1+r.rng.Intn(3)) * time.Millisecond)
	case 2:
		runtime.Gosched()
	}
}

// directive to the mock search; returns true if the search returned
func (r *runner) direct(d string) (ended bool, ok bool) {
	select {
	case r.m.ctl <- d:
	case <-time.After(patience):
		r.log.add(Ev{Ev: "timeout", What: "search-directive " + d})
		return false, false
	}
	select {
	case e := <-r.m.ack:
		return e, true
	case <-time.After(patience):
		// an info line that never gets onto the output channel
		r.log.add(Ev{Ev: "timeout", What: "search-step " + d})
		return false, false
	}
}

func (r *runner) seenBest() bool { return int(atomic.LoadInt32(&r.out.nBest)) >= r.goSent }

func (r *runner) run(steps int) {
	waitMode := r.rng.Intn(3) == 0 // wait for every answer before the next step (no races) or let things race
	alive := true
	if r.rng.Intn(2) == 0 {
		// pondering enabled from the start in half of the scenarios
		r.ponderOn = true
		r.send("pos", "setoption name Ponder value true")
	}
	for i := 0; i < steps && alive && !r.quit; i++ {
		r.jitter()
		if r.searchLive && r.seenBest() {
			r.searchLive = false
			r.mockRunning = false
		}
		if r.searchLive {
			// a search is outstanding: GUI may send isready / stop / ponderhit / quit / eof; the mock search may step
			choice := r.rng.Intn(100)
			switch {
			case !r.real && r.mockRunning && choice < 45:
				d := []string{"info", "info", "poll", "poll", "ponder", "finish"}[r.rng.Intn(6)]
				if r.m.async && r.rng.Intn(3) == 0 {
					// several lines in a row, then a question while they are still on their way
					for k := 0; k < 4; k++ {
						if _, ok := r.direct("info"); !ok {
							alive = false
						}
					}
					r.isrSent++
					r.send("isready", "isready")
					d = "info"
				}
				if d == "finish" && r.rng.Intn(3) != 0 {
					d = "poll"
				}
				ended, ok := r.direct(d)
				if !ok {
					alive = false
				}
				if ended {
					r.mockRunning = false
				}
			case choice < 65:
				r.isrSent++
				r.send("isready", "isready") // answered by the interrupt goroutine, or after the search if that one is gone
			case choice < 80:
				r.send("stop", "stop")
			case choice < 88 && r.lastGoPonder:
				r.lastGoPonder = false
				r.send("ponderhit", "ponderhit")
			case choice < 92:
				r.quit = true
				r.send("quit", "quit")
			case choice < 94:
				r.quit = true
				r.log.add(Ev{Ev: "eof"})
				r.in.Close()
			default:
				if r.real {
					time.Sleep(time.Duration(r.rng.Intn(2000)) * time.Microsecond)
				}
			}
			// a real search that was asked to run for ever needs a stop eventually
			continue
		}
		// idle: any command
		switch c := r.rng.Intn(100); {
		case c < 30:
			ponder := r.ponderOn && r.rng.Intn(2) == 0
			text := "go depth 3"
			if r.real {
				text = []string{"go depth 1", "go depth 4", "go nodes 3000", "go movetime 15", "go wtime 300 btime 300", "go infinite", "go depth 6 movetime 5",
					"go nodes 1500", "go nodes 777 depth 40", "go nodes 1", "go depth 3 nodes 100000", "go wtime 50 btime 50 winc 10 binc 10"}[r.rng.Intn(12)]
			} else if r.rng.Intn(3) == 0 {
				text = "go movetime 5"
			}
			name := "go"
			if ponder {
				text = strings.Replace(text, "go ", "go ponder ", 1)
				name = "goponder"
			}
			r.goSent++
			r.searchLive = true
			r.lastGoPonder = ponder
			r.send(name, text)
			if !r.real {
				if !r.waitFor(func() bool { return atomic.LoadInt32(&r.m.active) == 1 }, "search-start") {
					alive = false
				}
				r.mockRunning = true
			}
		case c < 50:
			r.isrSent++
			r.send("isready", "isready")
			if waitMode {
				alive = r.waitFor(func() bool { return int(atomic.LoadInt32(&r.out.nRdy)) >= r.isrSent }, "readyok")
			}
		case c < 62:
			r.send("pos", []string{"position startpos", "position startpos moves e2e4 e7e5", "ucinewgame", "setoption name Hash value 1", "debug off", "position fen 8/8/8/8/8/5k2/5p2/5K2 w - - 0 1"}[r.rng.Intn(6)])
		case c < 66:
			r.ponderOn = true
			r.send("pos", "setoption name Ponder value true")
		case c < 76:
			r.linesDue++
			r.send("one", []string{"fen", "eval"}[r.rng.Intn(2)])
		case c < 82:
			r.linesDue += r.ucilines
			r.send("uci", "uci")
		case c < 88:
			r.send("stop", "stop") // stop without a search: ignored
		case c < 94:
			r.quit = true
			r.send("quit", "quit")
		default:
			r.quit = true
			r.log.add(Ev{Ev: "eof"})
			r.in.Close()
		}
	}
	// wind down: let an outstanding search end, collect all answers, quit
	if alive && r.searchLive && !r.seenBest() {
		if !r.real && r.mockRunning {
			for k := 0; k < 3 && alive; k++ {
				ended, ok := r.direct([]string{"poll", "finish"}[min(k, 1)])
				if !ok {
					alive = false
				}
				if ended {
					break
				}
			}
		} else if r.real && !r.quit {
			r.send("stop", "stop")
		}
		if alive {
			alive = r.waitFor(r.seenBest, "bestmove")
		}
	}
	if alive && !r.quit {
		alive = r.waitFor(func() bool {
			return int(atomic.LoadInt32(&r.out.nRdy)) >= r.isrSent && int(atomic.LoadInt32(&r.out.nLine)) >= r.linesDue
		}, "answers")
		if r.rng.Intn(2) == 0 {
			r.send("quit", "quit")
		} else {
			r.log.add(Ev{Ev: "eof"})
			r.in.Close()
		}
		r.quit = true
	}
	if alive {
		select {
		case <-r.done:
			r.log.add(Ev{Ev: "exit"})
		case <-time.After(patience):
			r.log.add(Ev{Ev: "timeout", What: "exit"})
		}
	}
}

// ---- replay of behaviours enumerated by TLC (UciGen.tla): steps are performed one at a time, each after the
// driver has produced exactly the number of lines the model says it has produced at that point
type pathStep struct {
	K string `json:"k"`
	A string `json:"a"`
	N int    `json:"n"`
}
type pathT struct {
	Steps []pathStep `json:"steps"`
	Out   []string   `json:"out"`
}

func (r *runner) lines() int {
	return int(atomic.LoadInt32(&r.out.nBest) + atomic.LoadInt32(&r.out.nRdy) + atomic.LoadInt32(&r.out.nLine) + atomic.LoadInt32(&r.out.nInfo) + atomic.LoadInt32(&r.out.nTorn))
}

func (r *runner) replay(p pathT) {
	// the Ponder option is on for every replayed behaviour (a silent command for the model: "pos")
	r.send("pos", "setoption name Ponder value true")
	alive := true
	for _, st := range p.Steps {
		if !alive {
			break
		}
		n := st.N
		if !r.waitFor(func() bool { return r.lines() >= n }, fmt.Sprintf("line %d before %s %s", n, st.K, st.A)) {
			alive = false
			break
		}
		switch st.K {
		case "send":
			text := map[string]string{"isready": "isready", "go": "go depth 3", "goponder": "go ponder depth 3", "stop": "stop", "ponderhit": "ponderhit",
				"pos": "position startpos moves e2e4", "one": "fen", "uci": "uci", "quit": "quit"}[st.A]
			r.send(st.A, text)
			if st.A == "stop" || st.A == "ponderhit" || st.A == "pos" {
				time.Sleep(2 * time.Millisecond)
			}
			if st.A == "go" || st.A == "goponder" {
				if !r.waitFor(func() bool { return atomic.LoadInt32(&r.m.active) == 1 }, "search-start") {
					alive = false
				}
			}
		case "eof":
			r.log.add(Ev{Ev: "eof"})
			r.in.Close()
			time.Sleep(2 * time.Millisecond)
		case "search":
			// the model took this step with the driver quiescent; the real driver may still be digesting the last
			// silent command (stop, ponderhit, end of input): a poll the model saw succeed is repeated until it does
			want := strings.HasSuffix(st.A, "T")
			d := map[string]string{"info": "info", "finish": "finish", "pollT": "poll", "pollF": "poll", "ponderT": "ponder", "ponderF": "ponder"}[st.A]
			for try := 0; ; try++ {
				before := len(r.log.evs)
				ended, ok := r.direct(d)
				if !ok {
					alive = false
					break
				}
				got := ended
				if d == "ponder" {
					r.log.mu.Lock()
					got = r.log.evs[len(r.log.evs)-1].R
					r.log.mu.Unlock()
				}
				_ = before
				if d == "info" || d == "finish" || got == want || !want || try > 2000 {
					break
				}
				time.Sleep(time.Millisecond)
			}
		}
	}
	if alive {
		want := len(p.Out)
		r.waitFor(func() bool { return r.lines() >= want }, "final output")
		select {
		case <-r.done:
			r.log.add(Ev{Ev: "exit"})
		case <-time.After(patience):
			r.log.add(Ev{Ev: "timeout", What: "exit"})
		}
	}
}

func countUciLines() int {
	var sb strings.Builder
	d := uci.NewDriver(uci.WithInput(strings.NewReader("uci\nquit\n")), uci.WithOutput(&sb), uci.WithError(io.Discard), uci.WithSearch(&mock{}))
	d.Run()
	return strings.Count(sb.String(), "\n")
}

func main() {
	n := flag.Int("n", 50, "scenarios")
	seed := flag.Int64("seed", 1, "")
	steps := flag.Int("steps", 14, "steps per scenario")
	realPct := flag.Int("real", 30, "percentage of scenarios with the real search")
	out := flag.String("out", "", "")
	paths := flag.String("paths", "", "replay behaviours enumerated by TLC (json lines) instead of random scenarios")
	flag.Parse()
	f, err := os.Create(*out)
	if err != nil {
		panic(err)
	}
	defer f.Close()
	w := bufio.NewWriterSize(f, 1<<20)
	defer w.Flush()
	enc := json.NewEncoder(w)
	ucilines := countUciLines()
	base := runtime.NumGoroutine()
	var plist []pathT
	if *paths != "" {
		pf, err := os.Open(*paths)
		if err != nil {
			panic(err)
		}
		sc := bufio.NewScanner(pf)
		sc.Buffer(make([]byte, 1<<20), 1<<20)
		for sc.Scan() {
			var p pathT
			if err := json.Unmarshal(sc.Bytes(), &p); err != nil {
				panic(err)
			}
			plist = append(plist, p)
		}
		pf.Close()
		*n = len(plist)
	}
	for t := 1; t <= *n; t++ {
		sd := *seed*1000003 + int64(t)
		rng := rand.New(rand.NewSource(sd))
		lg := &logT{t: t}
		real := rng.Intn(100) < *realPct && plist == nil
		lg.add(Ev{Ev: "begin", Mock: !real, UciLines: ucilines, Seed: sd})
		pr, pw := io.Pipe()
		sk := &sink{log: lg}
		if rng.Intn(3) == 0 {
			sk.slow = time.Duration(50+rng.Intn(400)) * time.Microsecond
		}
		m := &mock{log: lg, ctl: make(chan string), ack: make(chan bool), long: rng.Intn(2) == 0, async: rng.Intn(2) == 0}
		var s uci.Search = m
		if real {
			s = search.New(1 << 20)
		}
		d := uci.NewDriver(uci.WithInput(pr), uci.WithOutput(sk), uci.WithError(io.Discard), uci.WithSearch(s))
		done := make(chan struct{})
		go func() { d.Run(); close(done) }()
		ap := newAsyncPipe(pw)
		r := &runner{rng: rng, ws: rand.New(rand.NewSource(sd ^ 0x5bd1e995)), log: lg, out: sk, in: ap, m: m, real: real, done: done, ucilines: ucilines}
		if plist != nil {
			r.replay(plist[t-1])
		} else {
			r.run(*steps)
		}
		// release everything if the scenario got stuck (so that the next scenario starts clean)
		ap.Close()
		pw.Close()
		close(m.ctl)
		select {
		case <-done:
		case <-time.After(2 * time.Second):
		}
		// goroutines back to the baseline?
		leak := true
		for k := 0; k < 200; k++ {
			if runtime.NumGoroutine() <= base {
				leak = false
				break
			}
			time.Sleep(time.Millisecond)
		}
		if leak {
			lg.add(Ev{Ev: "leak", What: fmt.Sprintf("goroutines %d > %d", runtime.NumGoroutine(), base)})
			base = runtime.NumGoroutine()
		}
		lg.add(Ev{Ev: "end"})
		for _, e := range lg.evs {
			if err := enc.Encode(e); err != nil {
				panic(err)
			}
		}
	}
}
