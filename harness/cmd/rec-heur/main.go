// rec-heur records the move picker, the history "gravity" updates, static exchange evaluation and the
// static evaluation of the real engine for validation against HeurTrace.tla (C16, C17, C18).
package main

import (
	"bufio"
	"bytes"
	"encoding/json"
	"flag"
	"fmt"
	"io"
	"math/rand"
	"os"
	"strconv"
	"strings"

	"github.com/paulsonkoly/chess-3/board"
	. "github.com/paulsonkoly/chess-3/chess"
	"github.com/paulsonkoly/chess-3/eval"
	"github.com/paulsonkoly/chess-3/heur"
	"github.com/paulsonkoly/chess-3/move"
	"github.com/paulsonkoly/chess-3/picker"
	"github.com/paulsonkoly/chess-3/search"
	"github.com/paulsonkoly/chess-3/stack"
	"github.com/paulsonkoly/chess-3/uci"

	"verifharness/internal/gen"
	"verifharness/internal/proj"
)

type Y struct {
	M int `json:"m"`
	W int `json:"w"`
}
type SeeRow struct {
	M   int   `json:"m"`
	Ans []int `json:"ans"`
}
type Ev struct {
	Ev   string    `json:"ev"`
	T    int       `json:"t"`
	Fen  string    `json:"fen,omitempty"`
	Pos  *proj.Pos `json:"pos,omitempty"`
	Hm   int       `json:"hm"`
	Hist string    `json:"hist,omitempty"`
	Y    *[]Y      `json:"y,omitempty"`
	Tab  string    `json:"tab,omitempty"`
	H    int       `json:"h"`
	B    int       `json:"b"`
	H1   int       `json:"h1"`
	H2   int       `json:"h2"`
	Th   *[]int    `json:"th,omitempty"`
	Rows *[]SeeRow `json:"rows,omitempty"`
	Via  string    `json:"via,omitempty"`
	Val  int       `json:"val"`
	// containers
	M     int      `json:"m"`
	W     int      `json:"w"`
	Fresh int      `json:"fresh"`
	Panic bool     `json:"panic"`
	Frame *[][]int `json:"frame,omitempty"`
	N     int      `json:"n"`
	V     int      `json:"v"`
	Ok    bool     `json:"ok"`
	// pv buffer / score text
	Ply    int       `json:"ply"`
	Active *[]int    `json:"active,omitempty"`
	Ix     *[]int    `json:"ix,omitempty"`
	Len    int       `json:"len"`
	From   int       `json:"from"`
	Texts  *[]string `json:"texts,omitempty"`
}

type rec struct {
	enc *json.Encoder
	rng *rand.Rand
	ms  *move.Store
	n   int
	t   int
	max int
}

func (r *rec) emit(e *Ev) {
	e.T = r.t
	if err := r.enc.Encode(e); err != nil {
		panic(err)
	}
	r.n++
}
func (r *rec) full() bool { return r.n >= r.max }

var profiles = []gen.Profile{
	{MinPieces: 2, MaxPieces: 8, PawnBias: 40},
	{MinPieces: 8, MaxPieces: 26, PawnBias: 50},
	{MinPieces: 8, MaxPieces: 24, PawnBias: 35, NearKings: true},
	{MinPieces: 6, MaxPieces: 18, PawnBias: 10, Promoted: true},
	{MinPieces: 8, MaxPieces: 22, PawnBias: 70},
}

func (r *rec) position(corpus []string) (string, *board.Board) {
	for {
		var fen string
		switch r.rng.Intn(8) {
		case 0, 1:
			fen = corpus[r.rng.Intn(len(corpus))]
		case 2:
			fen, _ = gen.EpStress2(r.rng)
			// play the double push so that an en-passant capture is on offer
			b, _ := board.FromFEN(fen)
			_, mv := gen.EpStress2(rand.New(rand.NewSource(0)))
			_ = mv
			lm := proj.Playable(b, r.ms)
			for _, m := range lm {
				d := int(m.To()) - int(m.From())
				if b.SquaresToPiece[m.From()] == Pawn && (d == 16 || d == -16) {
					b.MakeMove(m)
					if b.EnPassant != 0 {
						return b.FEN(), b
					}
					b, _ = board.FromFEN(fen)
				}
			}
			continue
		case 3:
			fen = gen.CastleStress(r.rng)
		default:
			fen = gen.RandomValid(r.rng, profiles[r.rng.Intn(len(profiles))])
		}
		b, err := board.FromFEN(fen)
		if err != nil {
			continue
		}
		// a few random plies so that en-passant states etc. arise naturally
		for i := r.rng.Intn(4); i > 0; i-- {
			lm := proj.Playable(b, r.ms)
			if len(lm) == 0 {
				break
			}
			b.MakeMove(lm[r.rng.Intn(len(lm))])
		}
		if b.FiftyCnt > 100 {
			continue
		}
		return b.FEN(), b
	}
}

// ---------------------------------------------------------------- picker

func (r *rec) drive(rk *heur.MoveRanker, hs *stack.Stack[heur.StackMove], corpus []string, rounds int, maxDepth int) {
	for i := 0; i < rounds; i++ {
		_, b := r.position(corpus)
		ps := proj.Generated(b, r.ms)
		if len(ps) == 0 {
			continue
		}
		k := 1 + r.rng.Intn(len(ps))
		r.rng.Shuffle(len(ps), func(a, c int) { ps[a], ps[c] = ps[c], ps[a] })
		ws := make([]move.Weighted, k)
		for j := 0; j < k; j++ {
			ws[j] = move.Weighted{Move: move.Move(ps[j]), Weight: Score(r.rng.Intn(20001) - 10000)}
		}
		d := 1 + r.rng.Intn(maxDepth)
		if maxDepth == 63 && r.rng.Intn(2) == 0 {
			d = 63
		}
		rk.FailHigh(Depth(d), b, ws, hs)
	}
}

func (r *rec) pick(corpus []string) {
	for !r.full() {
		fen, b := r.position(corpus)
		if r.rng.Intn(6) == 0 {
			// nothing but captures (mostly losing ones) on offer: what is deferred behind the quiet moves is all there is
			fen = gen.NoQuiet(r.rng)
			b, _ = board.FromFEN(fen)
		}
		r.t++
		rk := heur.NewMoveRanker()
		hs := stack.New[heur.StackMove]()
		// history stack: zero, one or two previous moves (enables the continuation terms)
		for i, n := 0, r.rng.Intn(3); i < n; i++ {
			hs.Push(heur.StackMove{Piece: Piece(1 + r.rng.Intn(6)), To: Square(r.rng.Intn(64)), Score: Score(r.rng.Intn(200) - 100)})
		}
		hist := "empty"
		switch r.rng.Intn(3) {
		case 1:
			hist = "driven"
			r.drive(&rk, hs, []string{fen}, 30, 12)
			r.drive(&rk, hs, corpus, 30, 12)
		case 2:
			hist = "saturated"
			r.drive(&rk, hs, []string{fen}, 400, 63)
		}
		p := proj.Project(b)
		// hash-move candidates: every generated move, none, random encodings, near misses
		cands := append([]int{0}, proj.Generated(b, r.ms)...)
		for i := 0; i < 6; i++ {
			cands = append(cands, r.rng.Intn(1<<15))
		}
		if p.Cr != 0 {
			// the four castling encodings, whether or not castling is possible right now
			cands = append(cands, 4<<6|6, 4<<6|2, 60<<6|62, 60<<6|58)
		}
		g := proj.Generated(b, r.ms)
		if len(g) > 0 {
			x := g[r.rng.Intn(len(g))]
			cands = append(cands, x|(5<<12), x|(7<<12), x^1, x^64)
		}
		first := true
		for _, hm := range cands {
			if r.full() {
				break
			}
			ms := move.NewStore()
			pk := picker.New(b, move.Move(hm), ms, &rk, hs)
			ms.Push()
			ys := []Y{}
			// half of the runs use the picker the way the search does: the yielded entry's weight is overwritten with
			// the value the move got (or -Inf for an illegal one) before the next move is asked for
			writeBack := r.rng.Intn(2) == 0
			for pk.Next() {
				w := pk.Move()
				ys = append(ys, Y{int(w.Move), int(w.Weight)})
				if writeBack {
					w.Weight = Score([]int{-10000, -37, 0, 12, 250, 9999}[r.rng.Intn(6)])
				}
				if len(ys) > 400 {
					break
				}
			}
			ms.Pop()
			e := &Ev{Ev: "pick", Hm: hm, Hist: hist, Y: &ys}
			if first {
				e.Fen, e.Pos = fen, &p
				first = false
			}
			r.emit(e)
		}
	}
}

// ---------------------------------------------------------------- gravity

func (r *rec) grav(shard, nshards int, full bool) {
	rk := heur.NewMoveRanker()
	hst, cap, cont := rk.VerifStores()
	var bonuses []int
	if full {
		// every bonus near zero and near the clamp, a grid in between (the stored value h runs over everything)
		for b := -1100; b <= 1100; b++ {
			if b%20 == 0 || (b >= -40 && b <= 40) || b <= -1000 || b >= 1000 {
				bonuses = append(bonuses, b)
			}
		}
	} else {
		for _, b := range []int{-32768, -20000, -2000, -1300, -1245, -1025, -1024, -1023, -512, -100, -17, -1, 0, 1, 17, 100, 512, 1023, 1024, 1025, 1245, 1300, 2000, 20000, 32767} {
			bonuses = append(bonuses, b)
		}
	}
	bonuses = append(bonuses, -32768, 32767, -1245, 1245, 5000, -5000)
	k := 0
	for h := -1024; h <= 1024; h++ {
		if !full && h%7 != 0 && h > -1000 && h < 1000 && (h < -8 || h > 8) {
			continue
		}
		for _, bn := range bonuses {
			k++
			if k%nshards != shard {
				continue
			}
			// reach the stored value h by one Add on a fresh cell, then apply the bonus
			sq := Square((k / 7) % 64)
			hst.Clear()
			hst.Add(White, sq, E4, Score(h))
			h1 := int(hst.LookUp(White, sq, E4))
			hst.Add(White, sq, E4, Score(bn))
			r.emit(&Ev{Ev: "grav", Tab: "history", H: h, H1: h1, B: bn, H2: int(hst.LookUp(White, sq, E4))})
			cap.Clear()
			cap.Add(Knight, Queen, sq, Score(h))
			h1 = int(cap.LookUp(Knight, Queen, sq))
			cap.Add(Knight, Queen, sq, Score(bn))
			r.emit(&Ev{Ev: "grav", Tab: "capthist", H: h, H1: h1, B: bn, H2: int(cap.LookUp(Knight, Queen, sq))})
			cont[k%2].Clear()
			cont[k%2].Add(Black, Rook, sq, Bishop, D5, Score(h))
			h1 = int(cont[k%2].LookUp(Black, Rook, sq, Bishop, D5))
			cont[k%2].Add(Black, Rook, sq, Bishop, D5, Score(bn))
			r.emit(&Ev{Ev: "grav", Tab: "continuation", H: h, H1: h1, B: bn, H2: int(cont[k%2].LookUp(Black, Rook, sq, Bishop, D5))})
		}
	}
}

// ---------------------------------------------------------------- SEE

func thresholds() []int {
	var th []int
	for t := -1350; t <= 1350; t += 50 {
		th = append(th, t)
	}
	for t := -1300; t <= 1300; t += 100 {
		th = append(th, t-1, t+1)
	}
	return th
}

func (r *rec) see(corpus []string) {
	th := thresholds()
	for !r.full() {
		fen, b := r.position(corpus)
		switch r.rng.Intn(6) {
		case 0, 1:
			fen = batteryPosition(r.rng)
			var err error
			b, err = board.FromFEN(fen)
			if err != nil {
				continue
			}
		case 2:
			// en-passant captures with batteries behind and beside the pushed pawn
			pre, from, to := gen.EpBattery(r.rng)
			pb, err := board.FromFEN(pre)
			if err != nil {
				continue
			}
			push := move.From(Square(from)) | move.To(Square(to))
			ok := false
			for _, m := range proj.Playable(pb, r.ms) {
				if m == push {
					ok = true
				}
			}
			if !ok {
				continue
			}
			pb.MakeMove(push)
			if pb.EnPassant == 0 {
				continue
			}
			fen, b = pb.FEN(), pb
		}
		lm := proj.Playable(b, r.ms)
		if len(lm) == 0 {
			continue
		}
		r.t++
		rows := []SeeRow{}
		for _, m := range lm {
			// quiet moves to unattacked squares are boring: keep all captures, promotions and a sample of the rest
			if b.SquaresToPiece[b.CaptureSq(m)] == NoPiece && m.Promo() == NoPiece && r.rng.Intn(3) != 0 {
				continue
			}
			ans := make([]int, len(th))
			for i, t := range th {
				if heur.SEE(b, m, Score(t)) {
					ans[i] = 1
				}
			}
			rows = append(rows, SeeRow{int(m), ans})
		}
		p := proj.Project(b)
		r.emit(&Ev{Ev: "see", Fen: fen, Pos: &p, Th: &th, Rows: &rows})
	}
}

// batteryPosition: many attackers of both colours lined up on one target square (files, diagonals, x-rays)
func batteryPosition(rng *rand.Rand) string {
	for {
		bd := make([]int, 64)
		tgt := 18 + rng.Intn(28)
		df := [8]int{1, -1, 0, 0, 1, 1, -1, -1}
		dr := [8]int{0, 0, 1, -1, 1, -1, 1, -1}
		for d := 0; d < 8; d++ {
			f, rk := tgt%8+df[d], tgt/8+dr[d]
			for step := 0; f >= 0 && f < 8 && rk >= 0 && rk < 8; step++ {
				if rng.Intn(3) == 0 {
					var t int
					if d < 4 {
						t = []int{4, 4, 5}[rng.Intn(3)]
					} else {
						t = []int{3, 3, 5}[rng.Intn(3)]
					}
					if rng.Intn(6) == 0 {
						t = []int{1, 2}[rng.Intn(2)]
					}
					if !(t == 1 && (rk == 0 || rk == 7)) {
						bd[rk*8+f] = 8*rng.Intn(2) + t
					}
				}
				f, rk = f+df[d], rk+dr[d]
			}
		}
		if rng.Intn(2) == 0 {
			bd[tgt] = 8*rng.Intn(2) + 1 + rng.Intn(5)
			if bd[tgt]%8 == 1 && (tgt/8 == 0 || tgt/8 == 7) {
				bd[tgt] = 0
			}
		}
		for _, kn := range []int{-17, -15, -10, -6, 6, 10, 15, 17} {
			s := tgt + kn
			if s >= 0 && s < 64 && abs(s%8-tgt%8) <= 2 && bd[s] == 0 && rng.Intn(4) == 0 {
				bd[s] = 8*rng.Intn(2) + 2
			}
		}
		for _, pc := range []int{6, 14} {
			for try := 0; try < 50; try++ {
				s := rng.Intn(64)
				if bd[s] == 0 && s != tgt {
					bd[s] = pc
					break
				}
			}
		}
		wk, bk := -1, -1
		cnt := [2][7]int{}
		for s, p := range bd {
			if p == 6 {
				wk = s
			}
			if p == 14 {
				bk = s
			}
			if p != 0 {
				cnt[p/8][p%8]++
			}
		}
		ok := wk >= 0 && bk >= 0 && !(abs(wk%8-bk%8) <= 1 && abs(wk/8-bk/8) <= 1)
		for c := 0; c < 2; c++ {
			n := cnt[c]
			if n[1]+max(n[2]-2, 0)+max(n[3]-2, 0)+max(n[4]-2, 0)+max(n[5]-1, 0) > 8 {
				ok = false
			}
		}
		if !ok {
			continue
		}
		stm := rng.Intn(2)
		if gen.Attacked(bd, []int{wk, bk}[1-stm], stm) {
			stm = 1 - stm
			if gen.Attacked(bd, []int{wk, bk}[1-stm], stm) {
				continue
			}
		}
		return gen.FEN(bd, stm, 0, -1, 0, 1)
	}
}

func abs(x int) int {
	if x < 0 {
		return -x
	}
	return x
}

// ---------------------------------------------------------------- eval (C17)

func mirrorFEN(b *board.Board) string {
	p := proj.Project(b)
	bd := make([]int, 64)
	for s := 0; s < 64; s++ {
		v := p.Bd[s]
		if v != 0 {
			v = (1-v/8)*8 + v%8
		}
		bd[(7-s/8)*8+s%8] = v
	}
	cr := (p.Cr%4)*4 + p.Cr/4
	ep := -1
	if p.Ep >= 0 {
		ep = (7-p.Ep/8)*8 + p.Ep%8
	}
	return gen.FEN(bd, 1-p.Stm, cr, ep, p.Hm, p.Fm)
}

func evalOf(b *board.Board) int { return int(eval.Eval(b, &eval.Coefficients)) }

var materialFens = []string{
	"8/8/8/4k3/8/8/8/KNB5 w - - 0 1", "8/8/8/4k3/8/8/8/KN1B4 w - - 0 1", "kbn5/8/8/8/4K3/8/8/8 b - - 0 1", "8/8/8/4k3/8/8/1B6/KN6 b - - 3 9",
	"8/8/8/4k3/8/8/8/K7 w - - 0 1", "8/8/8/4k3/8/8/8/KN6 w - - 0 1", "8/8/8/4k3/8/8/8/KB6 b - - 0 1", "8/8/8/4k1n1/8/8/8/KN6 w - - 0 1",
	"8/5k2/8/8/3Q4/8/1Q3K2/8 b - - 0 1", "4k3/8/8/8/8/8/qqq5/K6Q w - - 0 1", "QQQ4k/8/8/8/8/8/8/K7 b - - 10 40", "8/5k2/8/8/3R4/8/1RR2K2/8 w - - 0 1",
}

func (r *rec) eval(corpus []string) {
	for !r.full() {
		var fen string
		var b *board.Board
		if r.rng.Intn(6) == 0 {
			fen = materialFens[r.rng.Intn(len(materialFens))]
			b, _ = board.FromFEN(fen)
		} else if r.rng.Intn(4) == 0 {
			// the material classes evaluation functions have special rules for
			fen = gen.SparseEndgame(r.rng)
			b, _ = board.FromFEN(fen)
		} else if r.rng.Intn(5) == 0 {
			// KNB v K in random placements, both colours
			for {
				bd := make([]int, 64)
				c := r.rng.Intn(2)
				sq := r.rng.Perm(64)[:4]
				bd[sq[0]], bd[sq[1]], bd[sq[2]], bd[sq[3]] = 8*c+6, 8*c+2, 8*c+3, 8*(1-c)+6
				if abs(sq[0]%8-sq[3]%8) <= 1 && abs(sq[0]/8-sq[3]/8) <= 1 {
					continue
				}
				stm := r.rng.Intn(2)
				if gen.Attacked(bd, []int{sq[0], sq[3]}[boolInt(stm == c)], stm) {
					continue
				}
				fen = gen.FEN(bd, stm, 0, -1, r.rng.Intn(50), 1+r.rng.Intn(90))
				break
			}
			b, _ = board.FromFEN(fen)
		} else {
			fen, b = r.position(corpus)
		}
		if b == nil {
			continue
		}
		r.t++
		emit := func(via string, bb *board.Board) {
			p := proj.Project(bb)
			r.emit(&Ev{Ev: "eval", Via: via, Fen: bb.FEN(), Pos: &p, Val: evalOf(bb)})
		}
		emit("base", b)
		m, err := board.FromFEN(mirrorFEN(b))
		if err != nil {
			panic("mirror fen rejected: " + mirrorFEN(b))
		}
		emit("mirror", m)
		// unrelated evaluation in between (no hidden state)
		_, other := r.position(corpus)
		_ = evalOf(other)
		emit("again", b)
		// variants differing only in non-positional state
		p := proj.Project(b)
		v1, _ := board.FromFEN(gen.FEN(p.Bd, p.Stm, 0, -1, p.Hm, 1+r.rng.Intn(200)))
		emit("norights", v1)
		if p.Cr != 0 {
			v2, _ := board.FromFEN(gen.FEN(p.Bd, p.Stm, p.Cr&(1<<uint(r.rng.Intn(4))), p.Ep, p.Hm, p.Fm))
			emit("somerights", v2)
		}
		// hash history: after a null-move round trip and after make/undo of a move
		if !b.InCheck(b.STM) {
			rv := b.MakeNullMove()
			b.UndoNullMove(rv)
			emit("nullroundtrip", b)
		}
		if lm := proj.Playable(b, r.ms); len(lm) > 0 {
			mv := lm[r.rng.Intn(len(lm))]
			rv := b.MakeMove(mv)
			_ = evalOf(b)
			b.UndoMove(mv, rv)
			emit("makeundo", b)
		}
		// loaded without hash, as the tuner does
		var nb board.Board
		if err := board.ParseFEN(&nb, []byte(fen)); err == nil {
			pp := proj.Project(&nb)
			r.emit(&Ev{Ev: "eval", Via: "nohash", Fen: fen, Pos: &pp, Val: evalOf(&nb)})
		}
		// through the UCI eval command
		if !b.InvalidPieceCount() {
			var out bytes.Buffer
			d := uci.NewDriver(uci.WithInput(strings.NewReader("position fen "+fen+"\neval\nquit\n")), uci.WithOutput(&out), uci.WithError(io.Discard))
			d.Run()
			lines := strings.Split(strings.TrimSpace(out.String()), "\n")
			// the driver prints the score in its info notation: "cp N" (or "mate N" beyond the mate boundary)
			f := strings.Fields(lines[len(lines)-1])
			if len(f) == 2 && f[0] == "cp" {
				v, err := strconv.Atoi(f[1])
				if err != nil {
					panic("uci eval output: " + out.String())
				}
				r.emit(&Ev{Ev: "eval", Via: "uci", Fen: fen, Pos: &p, Val: v})
			} else if len(f) != 2 || f[0] != "mate" {
				panic("uci eval output: " + out.String())
			}
		}
	}
}

// containers: random operation sequences on a real move.Store and stack.Stack
func (r *rec) containers() {
	for !r.full() {
		r.t++
		st := move.NewStore()
		sk := stack.New[int]()
		r.emit(&Ev{Ev: "snew"})
		frame := func() *[][]int {
			res := [][]int{}
			for _, w := range st.Frame() {
				res = append(res, []int{int(w.Move), int(w.Weight)})
			}
			return &res
		}
		big := r.rng.Intn(12) == 0 // now and then run the store up to its capacity
		overflowed := false
		for i, n := 0, 30+r.rng.Intn(150); i < n && !r.full() && !overflowed; i++ {
			switch c := r.rng.Intn(100); {
			case c < 18:
				st.Push()
				r.emit(&Ev{Ev: "spush", Frame: frame()})
			case c < 30:
				st.Pop()
				r.emit(&Ev{Ev: "spop", Frame: frame()})
			case c < 70:
				k := 1
				if big && r.rng.Intn(4) == 0 {
					k = 400
				}
				for j := 0; j < k && !r.full(); j++ {
					m, w := r.rng.Intn(1<<15), r.rng.Intn(2001)-1000
					e := &Ev{Ev: "salloc", M: m, W: w}
					func() {
						defer func() {
							if x := recover(); x != nil {
								e.Panic = true
							}
						}()
						p := st.Alloc(move.Move(m))
						e.Fresh = int(p.Weight)
						p.Weight = Score(w)
					}()
					if !e.Panic && k == 1 {
						e.Frame = frame()
					}
					r.emit(e)
					if e.Panic {
						overflowed = true
						break
					}
				}
				if overflowed {
					break // the store is documented to be unusable after running out of space
				}
				if k > 1 {
					// resynchronise the frame observation after the bulk allocation
					st.Push()
					r.emit(&Ev{Ev: "spush", Frame: frame()})
				}
			case c < 73:
				st.Clear()
				r.emit(&Ev{Ev: "sclear", Frame: frame()})
			case c < 85:
				v := r.rng.Intn(1000)
				e := &Ev{Ev: "kpush", V: v}
				func() {
					defer func() {
						if recover() != nil {
							e.Panic = true
						}
					}()
					sk.Push(v)
				}()
				r.emit(e)
			case c < 92:
				e := &Ev{Ev: "kpop"}
				func() {
					defer func() {
						if recover() != nil {
							e.Panic = true
						}
					}()
					sk.Pop()
				}()
				r.emit(e)
			case c < 99:
				n := r.rng.Intn(5)
				v, ok := sk.Top(n)
				r.emit(&Ev{Ev: "ktop", N: n, V: v, Ok: ok})
			default:
				sk.Reset()
				r.emit(&Ev{Ev: "kreset"})
			}
		}
		// fill the history stack to its capacity once in a while
		if r.rng.Intn(5) == 0 {
			sk.Reset()
			r.emit(&Ev{Ev: "kreset"})
			for j := 0; j < 66 && !r.full(); j++ {
				e := &Ev{Ev: "kpush", V: j}
				func() {
					defer func() {
						if recover() != nil {
							e.Panic = true
						}
					}()
					sk.Push(j)
				}()
				r.emit(e)
			}
		}
	}
}

// pvbuf: operation sequences on the real principal-variation buffer, in the way the search uses it
// (setNull at node entry, insert below the last ply, lines never longer than their segment)
func (r *rec) pvbuf() {
	ix := make([]int, 64)
	for p := range ix {
		ix[p] = search.VerifBufIx(p)
	}
	r.emit(&Ev{Ev: "bufix", Ix: &ix, Len: search.VerifPVLen()})
	for !r.full() {
		r.t++
		pv := search.NewVerifPV()
		r.emit(&Ev{Ev: "pvnew"})
		lens := make([]int, 65)
		act := func() *[]int {
			res := []int{}
			for _, m := range pv.Active() {
				res = append(res, int(m))
			}
			return &res
		}
		deep := r.rng.Intn(4) == 0
		for i, n := 0, 40+r.rng.Intn(300); i < n && !r.full(); i++ {
			ply := r.rng.Intn(8)
			if deep {
				ply = r.rng.Intn(63)
			}
			if r.rng.Intn(3) == 0 {
				if deep && r.rng.Intn(2) == 0 {
					ply = 63
				}
				pv.SetNull(ply)
				lens[ply] = 0
				r.emit(&Ev{Ev: "pvnull", Ply: ply, Active: act()})
				continue
			}
			if ply > 62 {
				ply = 62
			}
			// walk a line up from a deep ply now and then (long variations)
			if deep && r.rng.Intn(5) == 0 {
				start := 20 + r.rng.Intn(43)
				pv.SetNull(start)
				lens[start] = 0
				r.emit(&Ev{Ev: "pvnull", Ply: start, Active: act()})
				for q := start - 1; q >= 0 && !r.full(); q-- {
					m := 1 + r.rng.Intn(32767)
					pv.Insert(q, move.Move(m))
					lens[q] = lens[q+1] + 1
					r.emit(&Ev{Ev: "pvinsert", Ply: q, M: m, Active: act()})
				}
				continue
			}
			m := 1 + r.rng.Intn(32767)
			pv.Insert(ply, move.Move(m))
			lens[ply] = lens[ply+1] + 1
			r.emit(&Ev{Ev: "pvinsert", Ply: ply, M: m, Active: act()})
		}
	}
}

// scores: the info-line text of every 16-bit score
func (r *rec) scores() {
	for from := -32768; from < 32768; from += 4096 {
		texts := make([]string, 4096)
		for k := range texts {
			texts[k] = Score(from + k).String()
		}
		r.t++
		r.emit(&Ev{Ev: "scores", From: from, Texts: &texts})
	}
}

func boolInt(b bool) int {
	if b {
		return 1
	}
	return 0
}

func main() {
	mode := flag.String("mode", "pick", "pick|grav|see|eval")
	n := flag.Int("n", 500, "events")
	seed := flag.Int64("seed", 1, "")
	shard := flag.Int("shard", 0, "")
	nshards := flag.Int("nshards", 1, "")
	full := flag.Bool("full", false, "grav: all stored values x all bonuses")
	corpusPath := flag.String("corpus", "", "")
	out := flag.String("out", "", "")
	flag.Parse()
	f, err := os.Create(*out)
	if err != nil {
		panic(err)
	}
	defer f.Close()
	w := bufio.NewWriterSize(f, 1<<20)
	defer w.Flush()
	r := &rec{enc: json.NewEncoder(w), rng: rand.New(rand.NewSource(*seed)), ms: move.NewStore(), max: *n}
	var corpus []string
	if *corpusPath != "" {
		corpus = gen.LoadCorpus(*corpusPath)
	}
	switch *mode {
	case "pick":
		r.pick(corpus)
	case "grav":
		r.max = 1 << 30
		r.grav(*shard, *nshards, *full)
	case "see":
		r.see(corpus)
	case "eval":
		r.eval(corpus)
	case "containers":
		r.containers()
	case "pvbuf":
		r.pvbuf()
	case "scores":
		r.max = 1 << 30
		r.scores()
	}
	fmt.Fprintln(os.Stderr, "events", r.n)
}
