// rec-search records real searches (search.Search.Go and the UCI `go` command) for validation against
// SearchTrace.tla / Search.tla (properties C06, C07, C08).
package main

import (
	"bufio"
	"bytes"
	"encoding/json"
	"flag"
	"fmt"
	"io"
	"math/rand"
	"os"
	"runtime/debug"
	"sort"
	"strconv"
	"strings"
	"sync"
	"time"

	"github.com/paulsonkoly/chess-3/board"
	. "github.com/paulsonkoly/chess-3/chess"
	"github.com/paulsonkoly/chess-3/move"
	"github.com/paulsonkoly/chess-3/params"
	"github.com/paulsonkoly/chess-3/search"
	"github.com/paulsonkoly/chess-3/transp"
	"github.com/paulsonkoly/chess-3/uci"

	"verifharness/internal/gen"
	"verifharness/internal/proj"
)

type Snap struct {
	Pos    proj.Pos `json:"pos"`
	Hash   string   `json:"hash"`
	Hashes []string `json:"hashes"`
}

type Ev struct {
	Ev    string    `json:"ev"`
	T     int       `json:"t"`
	Eng   int       `json:"eng"`
	Fen   string    `json:"fen,omitempty"`
	Root  *proj.Pos `json:"root,omitempty"`
	Moves *[]int    `json:"moves,omitempty"`
	Depth int       `json:"depth"`
	Hard  int       `json:"hard"`
	Soft  int       `json:"soft"`
	Stop  string    `json:"stop,omitempty"`
	TT    int       `json:"tt,omitempty"`
	Fresh bool      `json:"fresh"`
	// info
	Nodes int    `json:"nodes"`
	Score int    `json:"score"`
	Abort bool   `json:"abort"`
	Pv    *[]int `json:"pv,omitempty"`
	// ret
	M      int    `json:"m"`
	Ponder int    `json:"ponder"`
	Before *Snap  `json:"before,omitempty"`
	After  *Snap  `json:"after,omitempty"`
	Digest string `json:"digest,omitempty"`
	// uci
	Args   string `json:"args,omitempty"`
	Best   string `json:"best,omitempty"`
	Pond   string `json:"pond,omitempty"`
	NBest  int    `json:"nbest"`
	Low    bool   `json:"lowdepth"`
	Msg    string `json:"msg,omitempty"`
	Engine *bool  `json:"engine,omitempty"`
	// C08 pairing
	Lines  *[]string `json:"lines,omitempty"`
	Aborts *[]string `json:"aborts,omitempty"`
	Role   string    `json:"role,omitempty"`
	Ply    int       `json:"ply"`
}

type rec struct {
	enc *json.Encoder
	rng *rand.Rand
	ms  *move.Store
	n   int
	t   int
	max int
}

func (r *rec) emit(e *Ev) {
	e.T = r.t
	if err := r.enc.Encode(e); err != nil {
		panic(err)
	}
	r.n++
}
func (r *rec) full() bool { return r.n >= r.max }

func snap(b *board.Board) *Snap {
	return &Snap{Pos: proj.Project(b), Hash: proj.H(b.Hash()), Hashes: proj.Hashes(b)}
}

// parse "e2e4", "e7e8q" into the engine's encoding
func parseMove(s string) int {
	if s == "0000" || len(s) < 4 {
		return 0
	}
	from := int(s[0]-'a') + int(s[1]-'1')*8
	to := int(s[2]-'a') + int(s[3]-'1')*8
	pr := 0
	if len(s) >= 5 {
		pr = map[byte]int{'n': 2, 'b': 3, 'r': 4, 'q': 5}[s[4]]
	}
	return pr*4096 + from*64 + to
}

// parseInfo turns an info line into an event
func parseInfo(line string) *Ev {
	f := strings.Fields(line)
	e := &Ev{Ev: "info", Abort: true}
	for i := 1; i < len(f); i++ {
		switch f[i] {
		case "depth":
			e.Depth, _ = strconv.Atoi(f[i+1])
		case "nodes":
			e.Nodes, _ = strconv.Atoi(f[i+1])
		case "score":
			e.Abort = false
			v, _ := strconv.Atoi(f[i+2])
			if f[i+1] == "mate" {
				// mate N: keep sign and distance, encoded beyond the cp range
				if strings.HasPrefix(f[i+2], "-") {
					e.Score = -20000 + v
				} else {
					e.Score = 20000 + v
				}
			} else {
				e.Score = v
			}
		case "pv":
			pv := []int{}
			for _, m := range f[i+1:] {
				pv = append(pv, parseMove(m))
			}
			e.Pv = &pv
			i = len(f)
		}
	}
	if !e.Abort && e.Pv == nil {
		pv := []int{}
		e.Pv = &pv
	}
	return e
}

// stopWriter closes stop when an info line of the given depth passes
type stopWriter struct {
	buf   bytes.Buffer
	stop  chan struct{}
	at    string
	once  sync.Once
	hit   chan time.Time
	hitAt string
	once2 sync.Once
}

func (w *stopWriter) Write(p []byte) (int, error) {
	w.buf.Write(p)
	if w.hitAt != "" && strings.HasPrefix(string(p), w.hitAt) {
		w.once2.Do(func() { w.hit <- time.Now() })
	}
	if w.at != "" && strings.HasPrefix(string(p), w.at) {
		w.once.Do(func() { close(w.stop) })
	}
	return len(p), nil
}

type request struct {
	depth, hard, soft int
	stop              string // "none", "pre", "depthN"
	softTime          int64  // milliseconds, 0 = none (wall-clock dependent: used for C06/C07 only)
	ponderHit         string // "" = not pondering, "never", "depthN": ponderhit arrives when the depth-N line passes
}

// one search on engine s; emits go / info* / ret
func (r *rec) search(s *search.Search, eng int, fen string, prefix []move.Move, b *board.Board, rq request, tt int, fresh bool) (move.Move, int) {
	if tt < 32000 {
		// no info output with such a table: nothing can be triggered by an info line passing, and a search that
		// ignores its limits while pondering would never be stopped
		if strings.HasPrefix(rq.stop, "depth") {
			rq.stop = "none"
		}
		rq.ponderHit = ""
		if rq.hard < 0 && rq.soft < 0 {
			rq.hard = 20000
		}
	}
	root, _ := board.FromFEN(fen)
	rp := proj.Project(root)
	enc := proj.Enc(prefix)
	r.emit(&Ev{Ev: "go", Eng: eng, Fen: fen, Root: &rp, Moves: &enc, Depth: rq.depth, Hard: rq.hard, Soft: rq.soft, Stop: rq.stop, TT: tt, Fresh: fresh})
	before := snap(b)
	stop := make(chan struct{})
	w := &stopWriter{stop: stop}
	switch {
	case rq.stop == "pre":
		close(stop)
	case strings.HasPrefix(rq.stop, "depth"):
		w.at = "info depth " + rq.stop[5:] + " "
	}
	cnt := &search.Counters{}
	opts := []search.Option{search.WithDepth(Depth(rq.depth)), search.WithStop(stop), search.WithCounters(cnt)}
	if tt >= 32000 {
		opts = append(opts, search.WithOutput(w))
	} else {
		// a table too small for the hashfull estimate: searched without info output (every probe lands in the
		// same few buckets, so entries of OTHER positions are met all the time)
		opts = append(opts, search.WithOutput(nil))
	}
	if rq.hard >= 0 {
		opts = append(opts, search.WithNodes(rq.hard))
	}
	if rq.soft >= 0 {
		opts = append(opts, search.WithSoftNodes(rq.soft))
	}
	if rq.softTime > 0 {
		opts = append(opts, search.WithSoftTime(rq.softTime))
	}
	if rq.ponderHit != "" {
		// a ponder search: limits are ignored until the hit arrives (channel of capacity 1, as the driver makes it)
		w.hit = make(chan time.Time, 1)
		if strings.HasPrefix(rq.ponderHit, "depth") {
			w.hitAt = "info depth " + rq.ponderHit[5:] + " "
		}
		opts = append(opts, search.WithPonderHit(w.hit))
	}
	score, m, p := s.Go(b, opts...)
	after := snap(b)
	for _, line := range strings.Split(strings.TrimRight(w.buf.String(), "\n"), "\n") {
		if strings.HasPrefix(line, "info ") {
			e := parseInfo(line)
			e.Eng = eng
			r.emit(e)
		}
	}
	t1, t2, g := s.VerifDigest()
	r.emit(&Ev{Ev: "ret", Eng: eng, M: int(m), Ponder: int(p), Score: int(score), Nodes: cnt.Nodes, Before: before, After: after,
		Digest: fmt.Sprintf("%x-%x-%d", t1, t2, g)})
	return m, cnt.Nodes
}

func (r *rec) rootWithPrefix(corpus []string) (string, []move.Move, *board.Board) {
	return r.rootWithPrefixKind(corpus, -1)
}

// kind: -1 random, 2 = there-and-back shuffle (second/third occurrence of the root)
func (r *rec) rootWithPrefixKind(corpus []string, kind int) (string, []move.Move, *board.Board) {
	for {
		var fen string
		switch r.rng.Intn(10) {
		case 0, 1, 2, 3:
			fen = corpus[r.rng.Intn(len(corpus))]
		case 4:
			fen = gen.BoxedKing(r.rng, r.rng.Intn(2) == 0)
		case 5:
			fen = gen.CastleStress(r.rng)
		case 9:
			// roots whose only playable move (or none at all) is one of the special kinds: the en-passant capture
			// (either colour), the en-passant capture / double push that interposes - when such a move is lost on
			// the way from the move store to the search (the hash move of a repeated search, a picker stage), the
			// search has nothing left to return
			switch r.rng.Intn(3) {
			case 0:
				fen = gen.EpInterpose(r.rng)
			case 1:
				fen = gen.DoublePushBlock(r.rng)
			default:
				fen = gen.EpOnlyMove(r.rng)
			}
		default:
			fen = gen.RandomValid(r.rng, gen.Profile{MinPieces: 2, MaxPieces: 24, PawnBias: 45, NearKings: r.rng.Intn(2) == 0})
		}
		if f := strings.Fields(fen); len(f) == 6 && f[3] == "-" && r.rng.Intn(8) == 0 {
			// the fifty-move boundary inside the search tree: the clock reaches 100 one to six plies below the root
			f[4] = strconv.Itoa(94 + r.rng.Intn(6))
			fen = strings.Join(f, " ")
		}
		b, err := board.FromFEN(fen)
		if err != nil || b.InvalidPieceCount() {
			continue
		}
		var prefix []move.Move
		// game prefix: nothing, random moves, or a shuffle that sets up second / third occurrences
		k := r.rng.Intn(4)
		if kind >= 0 {
			k = kind
		}
		switch k {
		case 1:
			for i, n := 0, 1+r.rng.Intn(12); i < n; i++ {
				lm := proj.Playable(b, r.ms)
				if len(lm) == 0 {
					break
				}
				m := lm[r.rng.Intn(len(lm))]
				prefix = append(prefix, m)
				b.MakeMove(m)
			}
		case 2:
			// there-and-back moves: a b a' b' (x1 or x2) -> second or third occurrence of the root
			reps := 1 + r.rng.Intn(2)
			okShuffle := true
			var seq []move.Move
			tb, _ := board.FromFEN(fen)
			for k := 0; k < 2 && okShuffle; k++ {
				lm := proj.Playable(tb, r.ms)
				var cand []move.Move
				for _, m := range lm {
					if tb.SquaresToPiece[m.To()] == NoPiece && tb.SquaresToPiece[m.From()] != Pawn && tb.SquaresToPiece[m.From()] != King && tb.SquaresToPiece[m.From()] != Rook {
						cand = append(cand, m)
					}
				}
				if len(cand) == 0 {
					okShuffle = false
					break
				}
				m := cand[r.rng.Intn(len(cand))]
				seq = append(seq, m)
				tb.MakeMove(m)
			}
			if okShuffle {
				back := []move.Move{move.From(seq[0].To()) | move.To(seq[0].From()), move.From(seq[1].To()) | move.To(seq[1].From())}
				cycle := append(append([]move.Move{}, seq...), back...)
				for i := 0; i < reps && okShuffle; i++ {
					for _, m := range cycle {
						if !containsMove(proj.Playable(b, r.ms), m) {
							okShuffle = false
							break
						}
						prefix = append(prefix, m)
						b.MakeMove(m)
					}
				}
			}
		}
		return fen, prefix, b
	}
}

func containsMove(l []move.Move, m move.Move) bool {
	for _, x := range l {
		if x == m {
			return true
		}
	}
	return false
}

// randomParams: in an spsa build (-tags "verif spsa") every tunable search parameter is set to a random
// in-range value, read from the engine's own UCI option list; in a normal build this does nothing.
func randomParams(rng *rand.Rand) string {
	var set []string
	for _, line := range strings.Split(params.UCIOptions(), "\n") {
		f := strings.Fields(line)
		// option name X type spin default d min a max b
		if len(f) == 11 && f[0] == "option" && f[3] == "type" {
			lo, _ := strconv.Atoi(f[8])
			hi, _ := strconv.Atoi(f[10])
			v := lo + rng.Intn(hi-lo+1)
			if err := params.Set(f[2], v); err != nil {
				panic(err)
			}
			set = append(set, fmt.Sprintf("%s=%d", f[2], v))
		}
	}
	return strings.Join(set, " ")
}

var ttSizes = []int{32000, 32000, 1 << 20, 1 << 20, 16 << 20, 32, 64, 32}

// sweep: every hard node budget 0..K on a root (each k is one abort point), plus the other limit kinds
func (r *rec) sweep(corpus []string, K int) { r.sweepModes(corpus, K, false) }

// sweepModes with limitsOnly: only the mixed-limit traces, half of the requests pondering with a hard budget
func (r *rec) sweepModes(corpus []string, K int, limitsOnly bool) {
	eng := 0
	for !r.full() {
		fen, prefix, b := r.rootWithPrefix(corpus)
		r.t++
		randomParams(r.rng)
		tt := ttSizes[r.rng.Intn(len(ttSizes))]
		if limitsOnly && tt < 32000 {
			tt = 32000
		}
		s := search.New(tt)
		eng++
		fresh := true
		mode := r.rng.Intn(3)
		if limitsOnly {
			mode = 1
		}
		var reqs []request
		switch mode {
		case 0:
			// all budgets 0..k on ONE engine instance (searched again after every abort)
			k := K/4 + r.rng.Intn(K)
			for i := 0; i <= k; i++ {
				reqs = append(reqs, request{depth: 1 + r.rng.Intn(6), hard: i, soft: -1, stop: "none"})
			}
		case 1:
			for i := 0; i < 12; i++ {
				rq := request{depth: 1 + r.rng.Intn(5), hard: -1, soft: -1, stop: "none"}
				kind := r.rng.Intn(8)
				if limitsOnly && r.rng.Intn(2) == 0 {
					kind = 5
				}
				switch kind {
				case 6:
					rq.softTime = int64(1 + r.rng.Intn(4))
					rq.depth = 40
					rq.hard = 200000
				case 5:
					// pondering: depth and node limits wait for the ponderhit; a stop ends it in any case
					d1 := r.rng.Intn(4)
					rq.depth = 1 + r.rng.Intn(3)
					rq.hard = r.rng.Intn(3000)
					if r.rng.Intn(2) == 0 {
						rq.hard = r.rng.Intn(60) // a budget the ponder phase alone outruns
					}
					rq.ponderHit = fmt.Sprintf("depth%d", d1)
					if r.rng.Intn(3) == 0 {
						rq.ponderHit = "never"
					}
					rq.stop = fmt.Sprintf("depth%d", d1+1+r.rng.Intn(3))
				case 7:
					// as deep as the engine goes: the ply limit of the search tree and of the pv buffer
					rq.depth = 64
					rq.hard = 20000 + r.rng.Intn(60000)
				case 0:
					rq.stop = "pre"
				case 1:
					rq.stop = fmt.Sprintf("depth%d", r.rng.Intn(rq.depth+1))
				case 2:
					rq.soft = 1 + r.rng.Intn(3000)
					rq.depth = 30
				case 3:
					rq.hard = r.rng.Intn(5000)
					rq.depth = 1 + r.rng.Intn(12)
				case 4:
					rq.hard = r.rng.Intn(400)
					rq.soft = 1 + r.rng.Intn(400)
					rq.depth = 20
				}
				reqs = append(reqs, rq)
			}
		default:
			// a different position searched on a used engine, cut off early (stale state from the previous search)
			reqs = append(reqs, request{depth: 2 + r.rng.Intn(4), hard: -1, soft: -1, stop: "none"})
		}
		for _, rq := range reqs {
			if r.full() {
				break
			}
			r.search(s, eng, fen, prefix, b, rq, tt, fresh)
			fresh = false
		}
		if mode == 2 {
			for i := 0; i < 6 && !r.full(); i++ {
				fen2, prefix2, b2 := r.rootWithPrefix(corpus)
				rq := request{depth: 1 + r.rng.Intn(3), hard: r.rng.Intn(40), soft: -1, stop: "none"}
				if r.rng.Intn(3) == 0 {
					rq = request{depth: 30, hard: -1, soft: 1 + r.rng.Intn(3), stop: "none"}
				}
				if r.rng.Intn(4) == 0 {
					rq = request{depth: 1 + r.rng.Intn(3), hard: -1, soft: -1, stop: "none"}
				}
				r.search(s, eng, fen2, prefix2, b2, rq, tt, false)
			}
		}
	}
}

// collide: searches on positions that the transposition table cannot tell apart. The table keeps 16 bits of the
// hash per entry; in a small table two different positions with the same bucket and the same 16 bits are found
// by brute force over a pool (roots and their children). Scenario A: X is searched, then Y (same bucket and
// signature) on the same engine under every kind of early abort - whatever the table hands back for Y belongs to
// X. Scenario B: X is searched deeply, then Y whose CHILD Z collides with X: replies read from the table after
// the best move belong to X.
func (r *rec) collide(corpus []string) {
	type cand struct {
		fen string
		b   *board.Board
	}
	eng := 0
	var pool []cand
	var best1 []move.Move
	for !r.full() {
		// the pool: two roots per round, each with 1,200 positions up to six plies away - positions that look alike, so
		// that a move stored for one of them is often pseudo-legal (and, with a check on the board, illegal) in another
		pool = nil
		seen := map[board.Hash]bool{}
		pms := move.NewStore()
		for len(pool) < 2400 {
			_, _, base := r.rootWithPrefix(corpus)
			if base == nil {
				continue
			}
			baseFen := base.FEN()
			if nb, err := board.FromFEN(baseFen); err != nil || nb.InvalidPieceCount() {
				continue
			}
			added := 0
			for v := 0; v < 6000 && added < 1200 && len(pool) < 2400; v++ {
				b, _ := board.FromFEN(baseFen)
				for k := r.rng.Intn(7); k > 0; k-- {
					lm := proj.Playable(b, pms)
					if len(lm) == 0 {
						break
					}
					b.MakeMove(lm[r.rng.Intn(len(lm))])
				}
				if r.rng.Intn(2) == 0 {
					// end on a checking move if there is one: in a position in check almost every move that merely looks
					// playable is not
					for _, m := range proj.Playable(b, pms) {
						rv := b.MakeMove(m)
						if b.InCheck(b.STM) {
							break
						}
						b.UndoMove(m, rv)
					}
				}
				nb, err := board.FromFEN(b.FEN())
				if err != nil || seen[nb.Hash()] {
					continue
				}
				seen[nb.Hash()] = true
				added++
				pool = append(pool, cand{nb.FEN(), nb})
			}
		}
		// what a depth-1 search of each pool position prefers (on a table of its own)
		best1 = make([]move.Move, len(pool))
		{
			s1 := search.New(1 << 20)
			for i, c := range pool {
				s1.Clear()
				_, m, _ := s1.Go(c.b, search.WithDepth(1), search.WithOutput(nil))
				best1[i] = m
			}
		}
		tt := []int{32, 64, 64, 1024}[r.rng.Intn(4)]
		probe := search.New(tt)
		tab := probe.VerifTT()
		type key struct {
			b   int
			sig uint16
		}
		bySig := map[key][]int{}
		for i, c := range pool {
			bi, sg := transp.VerifBucketSig(tab, c.b.Hash())
			bySig[key{bi, sg}] = append(bySig[key{bi, sg}], i)
		}
		type pair struct {
			x, y  int
			child bool
		}
		var pairs []pair
		// (in a fixed order: the same seed must give the same scenarios, or a replay shows something else)
		var keys []key
		for k := range bySig {
			keys = append(keys, k)
		}
		sort.Slice(keys, func(i, j int) bool {
			return keys[i].b < keys[j].b || keys[i].b == keys[j].b && keys[i].sig < keys[j].sig
		})
		for _, k := range keys {
			l := bySig[k]
			for i := 0; i < len(l); i++ {
				for j := 0; j < len(l); j++ {
					if i != j && pool[l[i]].b.Hash() != pool[l[j]].b.Hash() {
						pairs = append(pairs, pair{l[i], l[j], false})
					}
				}
			}
		}
		// children: the position after the move a shallow search of Y actually prefers (that is the one a reply is
		// looked up for), and a few other children
		var childPairs []pair
		ms := move.NewStore()
		for yi := range pool {
			y := pool[yi].b
			if best1[yi] != 0 {
				rv := y.MakeMove(best1[yi])
				bi, sg := transp.VerifBucketSig(tab, y.Hash())
				h := y.Hash()
				y.UndoMove(best1[yi], rv)
				for _, xi := range bySig[key{bi, sg}] {
					if pool[xi].b.Hash() != h {
						childPairs = append(childPairs, pair{xi, yi, true})
					}
				}
			}
			if yi%8 != 0 {
				continue
			}
			for _, m := range proj.Playable(y, ms) {
				rv := y.MakeMove(m)
				bi, sg := transp.VerifBucketSig(tab, y.Hash())
				h := y.Hash()
				y.UndoMove(m, rv)
				for _, xi := range bySig[key{bi, sg}] {
					if pool[xi].b.Hash() != h && len(pairs) < 4000 {
						pairs = append(pairs, pair{xi, yi, true})
					}
				}
			}
		}
		r.rng.Shuffle(len(pairs), func(i, j int) { pairs[i], pairs[j] = pairs[j], pairs[i] })
		r.rng.Shuffle(len(childPairs), func(i, j int) { childPairs[i], childPairs[j] = childPairs[j], childPairs[i] })
		// first those in which the preferred move gives check: whatever the table hands back for the position after
		// it is most likely not a way out of the check
		givesCheck := func(yi int) bool {
			y := pool[yi].b
			rv := y.MakeMove(best1[yi])
			c := y.InCheck(y.STM)
			y.UndoMove(best1[yi], rv)
			return c
		}
		sort.SliceStable(childPairs, func(i, j int) bool { return givesCheck(childPairs[i].y) && !givesCheck(childPairs[j].y) })
		if len(childPairs) > 80 {
			childPairs = childPairs[:80]
		}
		sort.SliceStable(pairs, func(i, j int) bool {
			a, b := pool[pairs[i].y].b, pool[pairs[j].y].b
			return a.InCheck(a.STM) && !b.InCheck(b.STM)
		})
		if len(pairs) > 60 {
			pairs = pairs[:60]
		}
		pairs = append(childPairs, pairs...)
		for _, p := range pairs {
			if r.full() {
				break
			}
			r.t++
			eng++
			s := search.New(tt)
			x, y := pool[p.x], pool[p.y]
			bx, _ := board.FromFEN(x.fen)
			by, _ := board.FromFEN(y.fen)
			r.search(s, eng, x.fen, nil, bx, request{depth: 3 + r.rng.Intn(4), hard: -1, soft: -1, stop: "none"}, tt, true)
			var rqs []request
			if p.child {
				rqs = []request{{depth: 1, hard: -1, soft: -1, stop: "none"}, {depth: 30, hard: -1, soft: 1 + r.rng.Intn(200), stop: "none"},
					{depth: 1 + r.rng.Intn(2), hard: -1, soft: -1, stop: "none"}}
			} else {
				rqs = []request{{depth: 3, hard: 0, soft: -1, stop: "none"}, {depth: 3, hard: 1 + r.rng.Intn(40), soft: -1, stop: "none"},
					{depth: 2, hard: -1, soft: -1, stop: "pre"}, {depth: 1 + r.rng.Intn(2), hard: -1, soft: -1, stop: "none"}}
			}
			for _, rq := range rqs {
				if r.full() {
					break
				}
				// each on the state X left behind
				s2 := s
				_ = s2
				r.search(s, eng, y.fen, nil, by, rq, tt, false)
				if !p.child {
					// put X back in front
					r.search(s, eng, x.fen, nil, bx, request{depth: 2 + r.rng.Intn(3), hard: -1, soft: -1, stop: "none"}, tt, false)
				}
			}
		}
	}
}

// pv: deeper searches along games on one engine (warmed tables), tiny and normal tables (C07)
func (r *rec) pv(corpus []string, maxDepth int) {
	eng := 0
	for !r.full() {
		kind := -1
		if r.rng.Intn(10) < 6 {
			kind = 2 // repetitions in the game history cut variations short
		}
		fen, prefix, b := r.rootWithPrefixKind(corpus, kind)
		r.t++
		tt := ttSizes[r.rng.Intn(len(ttSizes))]
		s := search.New(tt)
		eng++
		fresh := true
		for ply := 0; ply < 14 && !r.full(); ply++ {
			rq := request{depth: 2 + r.rng.Intn(maxDepth-1), hard: -1, soft: -1, stop: "none"}
			if kind == 2 {
				rq.depth = max(3, maxDepth-r.rng.Intn(3))
			}
			switch r.rng.Intn(5) {
			case 0:
				rq.soft = 200 + r.rng.Intn(6000)
				rq.depth = 30
			case 1:
				rq.hard = 200 + r.rng.Intn(8000)
				rq.depth = 30
			}
			m, _ := r.search(s, eng, fen, prefix, b, rq, tt, fresh)
			fresh = false
			if m == 0 {
				break
			}
			// play the move (or sometimes another one) and go on with the same engine
			lm := proj.Playable(b, r.ms)
			if !containsMove(lm, m) {
				break
			}
			if r.rng.Intn(4) == 0 {
				m = lm[r.rng.Intn(len(lm))]
			}
			prefix = append(prefix, m)
			b.MakeMove(m)
		}
	}
}

// ---------------------------------------------------------------- C08: reproducibility

type gameLog struct {
	aborts [][]string
	lines  [][]string
	res    []string
	nodes  []int
	dig    []string
}

func stripTime(line string) string {
	f := strings.Fields(line)
	var out []string
	for i := 0; i < len(f); i++ {
		if f[i] == "time" {
			i++
			continue
		}
		out = append(out, f[i])
	}
	return strings.Join(out, " ")
}

// playGame: engine plays both sides; budgets[i] < 0 means "soft limit softs[i]", otherwise hard budget
func newBoard(fen string) *board.Board {
	if fen == StartPosFEN {
		return board.StartPos()
	}
	b, _ := board.FromFEN(fen)
	return b
}

func lastNodes(lines []string) int {
	n := 0
	for _, l := range lines {
		f := strings.Fields(l)
		for i := 0; i+1 < len(f); i++ {
			if f[i] == "nodes" {
				n, _ = strconv.Atoi(f[i+1])
			}
		}
	}
	return n
}

// playGame: the engine plays both sides. With hards == nil every search has a soft node limit and is run
// exactly as the UCI driver runs it (no counters handed in: node counts are read from the info lines);
// otherwise search i gets the hard budget hards[i].
func playGame(fen string, plies int, tt int, depth int, softs []int, hards []int) gameLog {
	b := newBoard(fen)
	s := search.New(tt)
	var g gameLog
	for i := 0; i < plies; i++ {
		var buf bytes.Buffer
		cnt := &search.Counters{}
		opts := []search.Option{search.WithDepth(Depth(depth)), search.WithOutput(&buf)}
		if hards != nil {
			if i >= len(hards) {
				break
			}
			opts = append(opts, search.WithNodes(hards[i]), search.WithCounters(cnt))
		} else {
			opts = append(opts, search.WithSoftNodes(softs[i%len(softs)]))
		}
		score, m, p := s.Go(b, opts...)
		ls, as := []string{}, []string{}
		for _, l := range strings.Split(strings.TrimRight(buf.String(), "\n"), "\n") {
			if strings.HasPrefix(l, "info ") {
				if strings.Contains(l, " score ") {
					ls = append(ls, stripTime(l))
				} else {
					as = append(as, stripTime(l))
				}
			}
		}
		g.aborts = append(g.aborts, as)
		t1, t2, gn := s.VerifDigest()
		g.lines = append(g.lines, ls)
		g.res = append(g.res, fmt.Sprintf("%d %s %s", score, m, p))
		if hards != nil {
			g.nodes = append(g.nodes, cnt.Nodes)
		} else {
			g.nodes = append(g.nodes, lastNodes(append(append([]string{}, ls...), as...)))
		}
		g.dig = append(g.dig, fmt.Sprintf("%x-%x-%d", t1, t2, gn))
		if m == 0 {
			break
		}
		b.MakeMove(m)
	}
	return g
}

func (r *rec) games(corpus []string, plies int) {
	for !r.full() {
		fen := corpus[r.rng.Intn(len(corpus))]
		switch r.rng.Intn(4) {
		case 0:
			fen = gen.RandomValid(r.rng, gen.Profile{MinPieces: 6, MaxPieces: 24, PawnBias: 50})
		case 1:
			fen = StartPosFEN // boards handed out by board.StartPos(), several alive at once
		}
		if b, err := board.FromFEN(fen); err != nil || b.InvalidPieceCount() {
			continue
		}
		r.t++
		tt := []int{32000, 1 << 20}[r.rng.Intn(2)]
		softs := []int{200 + r.rng.Intn(3000), 100 + r.rng.Intn(1500), 500 + r.rng.Intn(5000)}
		depth := 30
		// A: soft limits. C, D: the same request again, concurrently with other engines and allocation noise.
		var a, c, d gameLog
		var wg sync.WaitGroup
		wg.Add(3)
		go func() { defer wg.Done(); a = playGame(fen, plies, tt, depth, softs, nil) }()
		go func() { defer wg.Done(); c = playGame(fen, plies, tt, depth, softs, nil) }()
		go func() { defer wg.Done(); d = playGame(fen, plies, tt, depth, softs, nil) }()
		noise := make(chan struct{})
		go func() {
			var sink [][]byte
			for {
				select {
				case <-noise:
					return
				default:
					sink = append(sink, make([]byte, 1<<16))
					if len(sink) > 64 {
						sink = nil
					}
				}
			}
		}()
		wg.Wait()
		close(noise)
		// B: hard budgets equal to the node counts A reported
		bb := playGame(fen, plies, tt, depth, nil, a.nodes)
		emitGame := func(role string, g gameLog, hards []int) {
			for i := range g.res {
				h := -1
				if hards != nil {
					h = hards[i]
				}
				r.emit(&Ev{Ev: "gsearch", Role: role, Ply: i, Fen: fen, Lines: &g.lines[i], Aborts: &g.aborts[i], Best: g.res[i], Nodes: g.nodes[i], Digest: g.dig[i], Hard: h, Soft: softs[i%len(softs)]})
			}
		}
		emitGame("A", a, nil)
		emitGame("C", c, nil)
		emitGame("D", d, nil)
		emitGame("B", bb, a.nodes)
		r.emit(&Ev{Ev: "gend", Fen: fen})
	}
}

// ---------------------------------------------------------------- UCI go with arbitrary arguments

func (r *rec) ucigo(corpus []string) {
	nums := []string{"1", "2", "3", "5", "64", "65", "100", "127", "128", "129", "200", "255", "256", "257", "1000", "65535", "65536", "2147483647", "2147483648",
		"4294967296", "9223372036854775807", "9223372036854775808", "99999999999999999999999", "-1", "-128", "0", "abc", "1e3", "0x10", ""}
	for !r.full() {
		fen, prefix, b := r.rootWithPrefix(corpus)
		root, _ := board.FromFEN(fen)
		rp := proj.Project(root)
		r.t++
		var args string
		switch r.rng.Intn(6) {
		case 0:
			args = "depth " + nums[r.rng.Intn(len(nums))]
		case 1:
			args = "depth " + nums[r.rng.Intn(len(nums))] + " nodes " + strconv.Itoa(50+r.rng.Intn(3000))
		case 2:
			args = "nodes " + nums[r.rng.Intn(len(nums))] + " depth " + strconv.Itoa(1+r.rng.Intn(5))
		case 3:
			args = "movetime " + nums[r.rng.Intn(12)] + " depth " + strconv.Itoa(1+r.rng.Intn(6))
		case 4:
			args = fmt.Sprintf("wtime %s btime %s winc %s binc %s depth %d", nums[r.rng.Intn(len(nums))], nums[r.rng.Intn(len(nums))], nums[r.rng.Intn(len(nums))], nums[r.rng.Intn(len(nums))], 1+r.rng.Intn(5))
		default:
			args = "nodes " + strconv.Itoa(r.rng.Intn(300)) + " depth " + strconv.Itoa(1+r.rng.Intn(5))
		}
		if !strings.Contains(args, "nodes") {
			args += " nodes 20000" // keep large depths cheap; never the deciding limit for depth >= 1
		}
		cmd := "position fen " + fen
		if len(prefix) > 0 {
			cmd += " moves"
			for _, m := range prefix {
				cmd += " " + m.String()
			}
		}
		_ = b
		pr, pw := io.Pipe()
		var out safeBuf
		d := uci.NewDriver(uci.WithInput(pr), uci.WithOutput(&out), uci.WithError(io.Discard), uci.WithSearch(search.New(1<<20)))
		done := make(chan struct{})
		go func() { d.Run(); close(done) }()
		io.WriteString(pw, cmd+"\ngo "+args+"\n")
		out.waitFor("bestmove")
		io.WriteString(pw, "quit\n")
		pw.Close()
		<-done
		best, pond, nb := "", "", 0
		for _, l := range strings.Split(out.String(), "\n") {
			if strings.HasPrefix(l, "bestmove") {
				nb++
				f := strings.Fields(l)
				if len(f) > 1 {
					best = f[1]
				}
				if len(f) > 3 {
					pond = f[3]
				}
			}
		}
		enc := proj.Enc(prefix)
		// depth argument below 1 (as the driver reads it: non-numbers count as 0) is outside the property's domain
		low := false
		af := strings.Fields(args)
		for i, a := range af {
			if a == "depth" && i+1 < len(af) {
				v, err := strconv.Atoi(af[i+1])
				low = err != nil || v < 1
			}
		}
		r.emit(&Ev{Ev: "uciGo", Fen: fen, Root: &rp, Moves: &enc, Args: args, Best: best, Pond: pond, NBest: nb, M: parseMove(best), Low: low})
	}
}

// ucirepro: the same request through two real drivers - a fresh one, and one that has been through something
// else before `ucinewgame` (a clock-limited search, a ponder search that was stopped, a table that was shrunk,
// cleared and grown again). After ucinewgame (and the same Hash size) the answer to a depth- or node-limited
// `go` must not depend on what came before, nor on how long anything takes.
func (r *rec) ucirepro(corpus []string) {
	session := func(cmds []string) ([]string, string) {
		pr, pw := io.Pipe()
		var out safeBuf
		d := uci.NewDriver(uci.WithInput(pr), uci.WithOutput(&out), uci.WithError(io.Discard), uci.WithSearch(search.New(1<<20)))
		done := make(chan struct{})
		go func() { d.Run(); close(done) }()
		nbest := 0
		mark := 0
		for _, c := range cmds {
			if c == "@mark" {
				mark = len(out.String())
				continue
			}
			io.WriteString(pw, c+"\n")
			if strings.HasPrefix(c, "go") && !strings.HasPrefix(c, "go ponder") {
				nbest++
				out.waitCount("bestmove", nbest)
			}
			if c == "stop" {
				nbest++
				out.waitCount("bestmove", nbest)
			}
		}
		io.WriteString(pw, "quit\n")
		pw.Close()
		<-done
		var lines []string
		best := ""
		for _, l := range strings.Split(out.String()[mark:], "\n") {
			if strings.HasPrefix(l, "info ") && strings.Contains(l, " score ") {
				lines = append(lines, stripTime(l))
			}
			if strings.HasPrefix(l, "bestmove") {
				best = l
			}
		}
		return lines, best
	}
	for !r.full() {
		fen, _, _ := r.rootWithPrefixKind(corpus, 0)
		if b, err := board.FromFEN(fen); err != nil || b.InvalidPieceCount() {
			continue
		}
		hash := []int{1, 4, 8}[r.rng.Intn(3)]
		req := fmt.Sprintf("go depth %d", 7+r.rng.Intn(4))
		if r.rng.Intn(3) == 0 {
			req = fmt.Sprintf("go nodes %d", 20000+r.rng.Intn(60000))
		}
		tail := []string{"position fen " + fen, "@mark", req}
		ref := append([]string{fmt.Sprintf("setoption name Hash value %d", hash), "ucinewgame"}, tail...)
		var pre []string
		kind := r.rng.Intn(4)
		switch kind {
		case 0:
			pre = []string{fmt.Sprintf("setoption name Hash value %d", hash), "position startpos moves e2e4", fmt.Sprintf("go wtime %d btime %d", 30+r.rng.Intn(60), 30+r.rng.Intn(60)), "ucinewgame"}
		case 1:
			pre = []string{fmt.Sprintf("setoption name Hash value %d", hash), "position fen " + fen, "go movetime 15", "ucinewgame"}
		case 2:
			pre = []string{"setoption name Ponder value true", fmt.Sprintf("setoption name Hash value %d", hash), "position startpos", "go ponder wtime 200 btime 200", "stop", "ucinewgame"}
		default:
			// the table at its final size is used, shrunk, cleared and grown back: what the first search left beyond the
			// shrunk part must not come back
			if hash == 1 {
				hash = 16
				ref[0] = "setoption name Hash value 16"
			}
			pre = []string{fmt.Sprintf("setoption name Hash value %d", hash), "position fen " + fen, fmt.Sprintf("go nodes %d", 30000+r.rng.Intn(50000)), "setoption name Hash value 1", "ucinewgame", fmt.Sprintf("setoption name Hash value %d", hash)}
		}
		if kind == 2 {
			// the Ponder option changes what `bestmove` prints: same option on both sides
			ref = append([]string{"setoption name Ponder value true"}, ref...)
		}
		hist := append(append([]string{}, pre...), tail...)
		r.t++
		l1, b1 := session(ref)
		l2, b2 := session(hist)
		r.emit(&Ev{Ev: "usession", Role: "ref", Lines: &l1, Best: b1, Fen: fen})
		r.emit(&Ev{Ev: "usession", Role: "hist", Lines: &l2, Best: b2, Fen: fen})
		pl := strings.Join(pre, " | ")
		r.emit(&Ev{Ev: "uend", Fen: fen, Args: req, Msg: pl})
	}
}

func (s *safeBuf) waitCount(sub string, n int) {
	for i := 0; i < 120000; i++ {
		if strings.Count(s.String(), sub) >= n {
			return
		}
		sleepMs(1)
	}
	panic("uci driver did not answer " + sub)
}

type safeBuf struct {
	mu  sync.Mutex
	buf bytes.Buffer
	ch  chan struct{}
}

func (s *safeBuf) Write(p []byte) (int, error) {
	s.mu.Lock()
	defer s.mu.Unlock()
	return s.buf.Write(p)
}
func (s *safeBuf) String() string {
	s.mu.Lock()
	defer s.mu.Unlock()
	return s.buf.String()
}
func (s *safeBuf) waitFor(sub string) {
	for i := 0; i < 60000; i++ {
		if strings.Contains(s.String(), sub) {
			return
		}
		sleepMs(1)
	}
	panic("uci driver did not answer " + sub)
}

func main() {
	mode := flag.String("mode", "sweep", "sweep|pv|games|ucigo")
	n := flag.Int("n", 500, "events")
	seed := flag.Int64("seed", 1, "")
	k := flag.Int("k", 60, "hard budget sweep size")
	depth := flag.Int("depth", 5, "max depth for pv mode")
	plies := flag.Int("plies", 20, "plies per game in games mode")
	corpusPath := flag.String("corpus", "", "")
	out := flag.String("out", "", "")
	flag.Parse()
	f, err := os.Create(*out)
	if err != nil {
		panic(err)
	}
	w := bufio.NewWriterSize(f, 1<<20)
	r := &rec{enc: json.NewEncoder(w), rng: rand.New(rand.NewSource(*seed)), ms: move.NewStore(), max: *n}
	defer func() {
		if x := recover(); x != nil {
			st := string(debug.Stack())
			eng := !strings.Contains(firstNonRuntime(st), "/verif/")
			r.emit(&Ev{Ev: "panic", Msg: fmt.Sprint(x) + " | " + firstNonRuntime(st), Engine: &eng})
			fmt.Fprintln(os.Stderr, "panic recorded:", x)
		}
		w.Flush()
		f.Close()
	}()
	corpus := gen.LoadCorpus(*corpusPath)
	switch *mode {
	case "ucirepro":
		r.ucirepro(corpus)
	case "collide":
		r.collide(corpus)
	case "limits":
		r.sweepModes(corpus, *k, true)
	case "sweep":
		r.sweep(corpus, *k)
	case "pv":
		r.pv(corpus, *depth)
	case "games":
		r.games(corpus, *plies)
	case "ucigo":
		r.ucigo(corpus)
	}
	fmt.Fprintln(os.Stderr, "events", r.n)
}

func firstNonRuntime(st string) string {
	seen := false
	for _, l := range strings.Split(st, "\n") {
		l = strings.TrimSpace(l)
		if strings.HasPrefix(l, "panic(") {
			seen = true
			continue
		}
		if seen && strings.HasPrefix(l, "/") && !strings.Contains(l, "/runtime/") {
			return l
		}
	}
	return ""
}

func sleepMs(n int) { time.Sleep(time.Duration(n) * time.Millisecond) }
