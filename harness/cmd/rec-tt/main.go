// rec-tt records operation sequences on a real transp.Table for validation against TT.tla / TTTrace.tla
// (property C15). Keys are constructed to collide in bucket and/or signature; after every store the
// affected bucket is dumped so that the model and the table are compared in lock step.
package main

import (
	"bufio"
	"encoding/json"
	"flag"
	"fmt"
	"math/rand"
	"os"
	"runtime/debug"

	"github.com/paulsonkoly/chess-3/board"
	. "github.com/paulsonkoly/chess-3/chess"
	"github.com/paulsonkoly/chess-3/move"
	"github.com/paulsonkoly/chess-3/transp"
)

type Lane struct {
	Sig int `json:"sig"`
	Mv  int `json:"mv"`
	Val int `json:"val"`
	D   int `json:"d"`
	Typ int `json:"typ"`
	Gen int `json:"gen"`
}

type Ev struct {
	Ev   string `json:"ev"`
	T    int    `json:"t"`
	Nb   int    `json:"nb,omitempty"`
	B    int    `json:"b"`
	Sig  int    `json:"sig"`
	Gen  int    `json:"gen"`
	D    int    `json:"d"`
	Ply  int    `json:"ply"`
	Mv   int    `json:"mv"`
	Val  int    `json:"val"`
	Typ  int    `json:"typ"`
	Hit  bool   `json:"hit"`
	Bk   []Lane `json:"bk,omitempty"`
	W    []int  `json:"w,omitempty"`
	Key  int    `json:"key"`
	Ix   int    `json:"ix"`
	Ok   bool   `json:"ok"`
	Hash string `json:"hash,omitempty"`
	Msg  string `json:"msg,omitempty"`
}

// hashFor builds a 64-bit hash that lands in bucket b (of nb) with signature sig; mid varies the unused bits.
func hashFor(nb, b, sig int, mid uint64) board.Hash {
	// smallest low32 with (low32*nb)>>32 == b
	low := (uint64(b)<<32 + uint64(nb) - 1) / uint64(nb)
	// spread inside the bucket's range when there is room
	hi := (uint64(b+1)<<32+uint64(nb)-1)/uint64(nb) - 1
	if hi > low {
		low += mid % (hi - low + 1)
	}
	return board.Hash(uint64(sig)<<48 | (mid&0xffff)<<32 | low)
}

func dump(t *transp.Table, b int) []Lane {
	v := transp.VerifBucket(t, b)
	res := make([]Lane, 4)
	for i, e := range v {
		res[i] = Lane{int(e.Sig), int(e.Move), int(e.Value), int(e.Depth), int(e.Type), int(e.Gen)}
	}
	return res
}

// bucket counts; the last three are 16 MB plus 1, 2, 3 buckets (not a multiple of any worker count)
var sizes = []int{1, 1, 2, 3, 5, 8, 64, 1000, 1001, 32768, 65537, 65541, 70003, 131077, 524289, 524290, 524291}
var sigs = []int{0, 1, 2, 3, 4, 5, 6, 0x8000, 0xffff}
var vals = []int{-10000, -9999, -9990, -9938, -9937, -9936, -9935, -300, 0, 1, 250, 9935, 9936, 9937, 9938, 9950, 9999, 10000}
var moves = []int{0, 0, 0, 1, 777, 4095 + 4096*5, 32767}

func main() {
	n := flag.Int("n", 1000, "events")
	seed := flag.Int64("seed", 1, "")
	out := flag.String("out", "", "")
	flag.Parse()
	f, err := os.Create(*out)
	if err != nil {
		panic(err)
	}
	defer f.Close()
	w := bufio.NewWriterSize(f, 1<<20)
	defer w.Flush()
	enc := json.NewEncoder(w)
	rng := rand.New(rand.NewSource(*seed))
	cnt, tr := 0, 0
	emit := func(e Ev) {
		e.T = tr
		if err := enc.Encode(e); err != nil {
			panic(err)
		}
		cnt++
	}
	defer func() {
		if x := recover(); x != nil {
			emit(Ev{Ev: "panic", Msg: fmt.Sprint(x) + " | " + string(debug.Stack())[:600]})
			w.Flush()
			f.Close()
			os.Exit(0)
		}
	}()
	for cnt < *n {
		// ---- one session on one table
		tr++
		nb := sizes[rng.Intn(len(sizes))]
		t := transp.New(nb * 32)
		emit(Ev{Ev: "new", Nb: nb})
		gen := rng.Intn(256)
		if rng.Intn(3) == 0 {
			gen = 250 + rng.Intn(6) // wrap soon
		}
		pick := func() (int, int, board.Hash) {
			nbk := transp.VerifNumBuckets(t)
			bs := []int{0, nbk - 1, nbk / 2, max(0, nbk-2), max(0, nbk-3), nbk - 1}
			b := bs[rng.Intn(len(bs))]
			sig := sigs[rng.Intn(len(sigs))]
			if rng.Intn(12) == 0 {
				sig = rng.Intn(65536)
			}
			h := hashFor(nbk, b, sig, uint64(rng.Intn(3))*0x9e37+uint64(rng.Intn(2)))
			gb, gs := transp.VerifBucketSig(t, h)
			if gb != b || int(gs) != sig {
				panic(fmt.Sprintf("key construction: wanted (%d,%d) got (%d,%d) nb=%d", b, sig, gb, gs, nbk))
			}
			return b, sig, h
		}
		steps := 20 + rng.Intn(120)
		for s := 0; s < steps && cnt < *n; s++ {
			switch r := rng.Intn(100); {
			case r < 55:
				b, sig, h := pick()
				d := rng.Intn(64)
				if rng.Intn(2) == 0 {
					d = []int{0, 1, 2, 3, 4, 5, 6, 62, 63}[rng.Intn(9)]
				}
				ply := rng.Intn(64)
				mv := moves[rng.Intn(len(moves))]
				val := vals[rng.Intn(len(vals))]
				if rng.Intn(4) == 0 {
					val = rng.Intn(20001) - 10000
				}
				typ := rng.Intn(3)
				if rng.Intn(25) == 0 {
					// the entry a quiescence node stores for a quiet 0 in the first search of a game: all fields zero
					d, ply, mv, val, typ = 0, rng.Intn(3), 0, 0, 0
					if rng.Intn(2) == 0 {
						gen = 0
					}
				}
				t.Insert(h, transp.Gen(gen), Depth(d), Depth(ply), move.Move(mv), Score(val), transp.Type(typ))
				emit(Ev{Ev: "insert", B: b, Sig: sig, Gen: gen, D: d, Ply: ply, Mv: mv, Val: val, Typ: typ, Bk: dump(t, b), Hash: fmt.Sprint(uint64(h))})
			case r < 88:
				b, sig, h := pick()
				ply := rng.Intn(64)
				e, ok := t.LookUp(h)
				ev := Ev{Ev: "lookup", B: b, Sig: sig, Ply: ply, Hit: ok, Hash: fmt.Sprint(uint64(h))}
				if ok {
					ev.D, ev.Typ, ev.Val, ev.Mv = int(e.Depth()), int(e.Type()), int(e.Value(Depth(ply))), int(e.Move)
				}
				emit(ev)
			case r < 94:
				gen = (gen + 1) % 256
			case r < 97:
				t.Clear()
				emit(Ev{Ev: "clear"})
			default:
				// resize; sometimes use the table before the clear (contents unspecified, must not crash)
				nb2 := sizes[rng.Intn(len(sizes))]
				t.Resize(nb2 * 32)
				if rng.Intn(2) == 0 {
					for k := 0; k < 20; k++ {
						_, _, h := pick()
						t.Insert(h, transp.Gen(gen), Depth(rng.Intn(64)), Depth(rng.Intn(64)), move.Move(rng.Intn(32768)), Score(rng.Intn(20001)-10000), transp.Type(rng.Intn(3)))
						_, _, h2 := pick()
						if e, ok := t.LookUp(h2); ok {
							_ = e.Value(3)
						}
					}
				}
				t.Clear()
				emit(Ev{Ev: "resize", Nb: nb2})
			}
		}
		// match64 over lane patterns
		for k := 0; k < 12 && cnt < *n; k++ {
			key := sigs[rng.Intn(len(sigs))]
			pool := []int{0, key, key ^ 1, 0x8000, 0xffff, key ^ 0x8000, (key + 1) & 0xffff, (key - 1) & 0xffff}
			lanes := make([]int, 4)
			var word uint64
			for i := range lanes {
				lanes[i] = pool[rng.Intn(len(pool))]
				word |= uint64(lanes[i]) << (16 * i)
			}
			ix, ok := transp.VerifMatch64(word, uint16(key))
			emit(Ev{Ev: "match64", W: lanes, Key: key, Ix: ix, Ok: ok})
		}
	}
}
