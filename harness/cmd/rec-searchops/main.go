// rec-searchops records every MakeMove / UndoMove / MakeNullMove / UndoNullMove the REAL search performs
// (through the board.VerifOnOp observer, build tag verif) as GameTrace events, so that the make/undo stack
// discipline, the full-state restoration and the incremental hash are validated on the very interleaving the
// search produces - including the unwinding after an abort (properties C03, C04).
package main

import (
	"bufio"
	"encoding/json"
	"flag"
	"fmt"
	"io"
	"math/rand"
	"os"

	"github.com/paulsonkoly/chess-3/board"
	. "github.com/paulsonkoly/chess-3/chess"
	"github.com/paulsonkoly/chess-3/move"
	"github.com/paulsonkoly/chess-3/search"

	"verifharness/internal/gen"
	"verifharness/internal/proj"
)

type Ev struct {
	Ev      string    `json:"ev"`
	T       int       `json:"t"`
	Fen     string    `json:"fen,omitempty"`
	M       *int      `json:"m,omitempty"`
	Illegal *bool     `json:"illegal,omitempty"`
	Pos     *proj.Pos `json:"pos,omitempty"`
	Hash    string    `json:"hash,omitempty"`
	Scratch string    `json:"scratch,omitempty"`
	KHash   *bool     `json:"khash,omitempty"`
	Pl2     *[]int    `json:"pl2,omitempty"`
	Pl3     *[]int    `json:"pl3,omitempty"`
	Hashes  *[]string `json:"hashes,omitempty"`
	Depth   int       `json:"depth"`
	Hard    int       `json:"hard"`
	Base    int       `json:"base"`
}

var tru = true

func main() {
	n := flag.Int("n", 3000, "events")
	seed := flag.Int64("seed", 1, "")
	corpusPath := flag.String("corpus", "", "")
	out := flag.String("out", "", "")
	flag.Parse()
	f, err := os.Create(*out)
	if err != nil {
		panic(err)
	}
	defer f.Close()
	w := bufio.NewWriterSize(f, 1<<20)
	defer w.Flush()
	enc := json.NewEncoder(w)
	rng := rand.New(rand.NewSource(*seed))
	corpus := gen.LoadCorpus(*corpusPath)
	ms := move.NewStore()
	cnt, t := 0, 0
	emit := func(e *Ev) {
		e.T = t
		if err := enc.Encode(e); err != nil {
			panic(err)
		}
		cnt++
	}
	obs := func(b *board.Board, e *Ev, full bool) {
		p := proj.Project(b)
		e.Pos = &p
		e.Hash = proj.H(b.Hash())
		hs := proj.Hashes(b)
		e.Hashes = &hs
		if full {
			e.Scratch = proj.H(board.VerifScratchHash(b))
			e.KHash = &tru
			pl2 := proj.PlacementBitboards(b)
			pl3 := proj.PlacementFEN(b.FEN())
			e.Pl2, e.Pl3 = &pl2, &pl3
		}
	}
	for cnt < *n {
		var fen string
		switch rng.Intn(6) {
		case 0, 1:
			fen = corpus[rng.Intn(len(corpus))]
		case 2:
			fen = gen.CastleStress(rng)
		case 3:
			fen = gen.BoxedKing(rng, rng.Intn(2) == 0)
		default:
			fen = gen.RandomValid(rng, gen.Profile{MinPieces: 3, MaxPieces: 20, PawnBias: 45, NearKings: rng.Intn(2) == 0})
		}
		b, err := board.FromFEN(fen)
		if err != nil || b.InvalidPieceCount() {
			continue
		}
		t++
		e := &Ev{Ev: "load", Fen: fen}
		obs(b, e, true)
		emit(e)
		// a short game prefix (so that the hash history is not trivial)
		base := 0
		for i, k := 0, rng.Intn(5); i < k; i++ {
			lm := proj.Playable(b, ms)
			if len(lm) == 0 {
				break
			}
			m := lm[rng.Intn(len(lm))]
			b.MakeMove(m)
			base++
			mi := int(m)
			e := &Ev{Ev: "make", M: &mi}
			obs(b, e, true)
			emit(e)
		}
		// the search, observed operation by operation
		budget := *n - cnt
		board.VerifOnOp = func(kind int, bb *board.Board, m move.Move) {
			if bb != b || cnt >= *n+4000 {
				return
			}
			mi := int(m)
			switch kind {
			case board.VerifMake:
				e := &Ev{Ev: "make", M: &mi}
				if bb.InCheck(bb.STM.Flip()) {
					e.Illegal = &tru
					obs(bb, e, false)
				} else {
					obs(bb, e, true)
				}
				emit(e)
			case board.VerifUndo:
				e := &Ev{Ev: "undo", M: &mi}
				obs(bb, e, true)
				emit(e)
			case board.VerifNullMake:
				e := &Ev{Ev: "nullmake"}
				obs(bb, e, true)
				e.KHash = nil
				emit(e)
			case board.VerifNullUndo:
				e := &Ev{Ev: "nullundo"}
				obs(bb, e, true)
				emit(e)
			}
		}
		depth := 1 + rng.Intn(4)
		hard := -1
		opts := []search.Option{search.WithDepth(Depth(depth)), search.WithOutput(io.Discard)}
		if rng.Intn(2) == 0 {
			// abort somewhere inside the tree: the unwinding has to undo everything
			hard = rng.Intn(min(400, max(budget/3, 2)))
			opts = append(opts, search.WithNodes(hard))
		} else if budget < 4000 {
			opts = append(opts, search.WithNodes(max(budget/3, 1)))
		} else {
			opts = append(opts, search.WithNodes(1500))
		}
		s := search.New(32000)
		s.Go(b, opts...)
		board.VerifOnOp = nil
		emit(&Ev{Ev: "balanced", Depth: depth, Hard: hard, Base: base})
	}
	fmt.Fprintln(os.Stderr, "events", cnt)
}
