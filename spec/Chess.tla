------------------------------ MODULE Chess ------------------------------
(***************************************************************************)
(* The rules of chess as an executable specification: pseudo-legal and     *)
(* legal moves, the successor position, validity of positions, game status *)
(* and the repetition key.  Written from the FIDE rules by ray walking and *)
(* "make the move, test whether the king is attacked" - no bitboards, no   *)
(* pin analysis, no incremental state - so that it is an oracle that is    *)
(* independent of the engine's algorithms.                                 *)
(*                                                                         *)
(* Encodings shared with the Go recorders:                                 *)
(*   piece   0 = empty, 1..6 = white P N B R Q K, 9..14 = black P N B R Q K *)
(*   pos     [bd : Sq -> piece, stm : 0..1, cr : 0..15, ep : -1..63,       *)
(*            hm : Int, fm : Int]                                          *)
(*   cr      bit 1 = white short, 2 = white long, 4 = black short,         *)
(*           8 = black long                                                *)
(*   move    [f, t, pr] ; pr = 0 or the promotion piece type 2..5 ;        *)
(*           integer encoding pr * 4096 + f * 64 + t (the engine's)        *)
(***************************************************************************)
EXTENDS Geometry, TLC

P == 1  N == 2  B == 3  R == 4  Q == 5  K == 6
Pc(c, t) == 8 * c + t
TypeOf(p) == p % 8
ColorOf(p) == p \div 8

Mv(f, t, pr) == [f |-> f, t |-> t, pr |-> pr]
EncM(m) == m.pr * 4096 + m.f * 64 + m.t
DecM(e) == Mv((e \div 64) % 64, e % 64, (e \div 4096) % 8)

Occ(bd) == {s \in Sq : bd[s] # 0}

(***************************************************************************)
(* Attacks                                                                 *)
(***************************************************************************)
RECURSIVE FirstOcc(_, _, _)
FirstOcc(bd, ray, i) == IF i > Len(ray) THEN i ELSE IF bd[ray[i]] # 0 THEN i ELSE FirstOcc(bd, ray, i + 1)

SlideTargets(bd, s, d) ==
  LET ray == RayT[s][d]
      k == FirstOcc(bd, ray, 1)
      n == IF k > Len(ray) THEN Len(ray) ELSE k
  IN {ray[i] : i \in 1..n}

FirstPiece(bd, s, d) ==
  LET ray == RayT[s][d]
      k == FirstOcc(bd, ray, 1)
  IN IF k > Len(ray) THEN 0 ELSE bd[ray[k]]

\* is square s attacked by a piece of colour by ?
Attacked(bd, s, by) ==
  \/ \E t \in KnightT[s] : bd[t] = Pc(by, N)
  \/ \E t \in KingT[s] : bd[t] = Pc(by, K)
  \/ \E t \in PawnAttT[1 - by][s] : bd[t] = Pc(by, P)
  \/ \E d \in RookDirs : FirstPiece(bd, s, d) \in {Pc(by, R), Pc(by, Q)}
  \/ \E d \in BishopDirs : FirstPiece(bd, s, d) \in {Pc(by, B), Pc(by, Q)}

Kings(bd, c) == {s \in Sq : bd[s] = Pc(c, K)}
KingSq(bd, c) == CHOOSE s \in Sq : bd[s] = Pc(c, K)
InCheck(bd, c) == Attacked(bd, KingSq(bd, c), 1 - c)

(***************************************************************************)
(* Pseudo-legal moves: the generator's contract.  Piece movement, own-piece *)
(* blocking, castling with all its conditions (right, empty squares, king  *)
(* not in check and not passing over or landing on an attacked square),    *)
(* en passant onto the recorded target, promotion to N/B/R/Q exactly on the *)
(* last rank.  Leaving the own king in check is still allowed here.        *)
(***************************************************************************)
PromoSet(c, t) == IF Rank(t) = (IF c = 0 THEN 7 ELSE 0) THEN {N, B, R, Q} ELSE {0}

PawnMoves(pos, s) ==
  LET c == pos.stm bd == pos.bd
      dir == IF c = 0 THEN 8 ELSE -8
      home == IF c = 0 THEN 1 ELSE 6
      one == s + dir
      pushes == IF one \in Sq /\ bd[one] = 0
                THEN {one} \cup (IF Rank(s) = home /\ bd[one + dir] = 0 THEN {one + dir} ELSE {})
                ELSE {}
      caps == {t \in PawnAttT[c][s] : (bd[t] # 0 /\ ColorOf(bd[t]) # c) \/ t = pos.ep}
  IN UNION {{Mv(s, t, pr) : pr \in PromoSet(c, t)} : t \in pushes \cup caps}

NotOwn(bd, c, t) == bd[t] = 0 \/ ColorOf(bd[t]) # c

PieceMoves(pos, s) ==
  LET bd == pos.bd c == pos.stm ty == TypeOf(bd[s])
      tg == CASE ty = N -> KnightT[s]
              [] ty = K -> KingT[s]
              [] ty = B -> UNION {SlideTargets(bd, s, d) : d \in BishopDirs}
              [] ty = R -> UNION {SlideTargets(bd, s, d) : d \in RookDirs}
              [] ty = Q -> UNION {SlideTargets(bd, s, d) : d \in 1..8}
  IN {Mv(s, t, 0) : t \in {u \in tg : NotOwn(bd, c, u)}}

HasRight(cr, b) == (cr \div b) % 2 = 1
ShortBit(c) == IF c = 0 THEN 1 ELSE 4
LongBit(c) == IF c = 0 THEN 2 ELSE 8

CastleMoves(pos) ==
  LET bd == pos.bd c == pos.stm
      e == IF c = 0 THEN 4 ELSE 60
      opp == 1 - c
      short == IF HasRight(pos.cr, ShortBit(c)) /\ bd[e] = Pc(c, K) /\ bd[e + 3] = Pc(c, R)
                  /\ bd[e + 1] = 0 /\ bd[e + 2] = 0
                  /\ ~Attacked(bd, e, opp) /\ ~Attacked(bd, e + 1, opp) /\ ~Attacked(bd, e + 2, opp)
               THEN {Mv(e, e + 2, 0)} ELSE {}
      long == IF HasRight(pos.cr, LongBit(c)) /\ bd[e] = Pc(c, K) /\ bd[e - 4] = Pc(c, R)
                  /\ bd[e - 1] = 0 /\ bd[e - 2] = 0 /\ bd[e - 3] = 0
                  /\ ~Attacked(bd, e, opp) /\ ~Attacked(bd, e - 1, opp) /\ ~Attacked(bd, e - 2, opp)
               THEN {Mv(e, e - 2, 0)} ELSE {}
  IN short \cup long

Pseudo(pos) ==
  LET bd == pos.bd c == pos.stm
      own == {s \in Sq : bd[s] # 0 /\ ColorOf(bd[s]) = c}
  IN UNION {IF TypeOf(bd[s]) = P THEN PawnMoves(pos, s) ELSE PieceMoves(pos, s) : s \in own}
     \cup CastleMoves(pos)

IsEP(pos, m) == TypeOf(pos.bd[m.f]) = P /\ pos.ep # -1 /\ m.t = pos.ep
CapSq(pos, m) == IF IsEP(pos, m) THEN File(m.t) + 8 * Rank(m.f) ELSE m.t
IsCastle(pos, m) == TypeOf(pos.bd[m.f]) = K /\ Abs(m.t - m.f) = 2

BoardAfter(pos, m) ==
  LET bd == pos.bd c == pos.stm p == bd[m.f]
      put == IF m.pr # 0 THEN Pc(c, m.pr) ELSE p
      csq == CapSq(pos, m)
      b1 == [bd EXCEPT ![csq] = 0, ![m.f] = 0, ![m.t] = put]
  IN IF IsCastle(pos, m)
     THEN IF m.t > m.f THEN [b1 EXCEPT ![m.f + 3] = 0, ![m.f + 1] = Pc(c, R)]
                      ELSE [b1 EXCEPT ![m.f - 4] = 0, ![m.f - 1] = Pc(c, R)]
     ELSE b1

LegalM(pos, m) == ~InCheck(BoardAfter(pos, m), pos.stm)
Legal(pos) == {m \in Pseudo(pos) : LegalM(pos, m)}
HasLegal(pos) == \E m \in Pseudo(pos) : LegalM(pos, m)

(***************************************************************************)
(* Successor position                                                      *)
(***************************************************************************)
\* castling right attached to a rook home square
Corner(s) == CASE s = 0 -> 2 [] s = 7 -> 1 [] s = 56 -> 8 [] s = 63 -> 4 [] OTHER -> 0
BitClear(cr, mask) == LET b(k) == IF (mask \div k) % 2 = 1 THEN 0 ELSE ((cr \div k) % 2) * k
                      IN b(1) + b(2) + b(4) + b(8)

\* is there a legal en-passant capture onto square e in position p (p.ep is ignored)?
EpCapturable(p, e) ==
  /\ e # -1
  /\ LET q == [p EXCEPT !.ep = e]
     IN \E s \in PawnAttT[1 - p.stm][e] : p.bd[s] = Pc(p.stm, P) /\ LegalM(q, Mv(s, e, 0))

(* Make follows the rules, with the engine's documented convention for the  *)
(* en-passant target: it is recorded iff a legal en-passant capture exists  *)
(* in the successor (property C02).                                         *)
Make(pos, m) ==
  LET bd == pos.bd c == pos.stm p == bd[m.f]
      nb == BoardAfter(pos, m)
      cap == bd[CapSq(pos, m)] # 0
      \* a king move clears both rights of the mover; a move from or a capture on a
      \* rook home square clears the right attached to that square
      kingMask == IF TypeOf(p) = K THEN (IF c = 0 THEN 3 ELSE 12) ELSE 0
      cr2 == BitClear(BitClear(BitClear(pos.cr, kingMask), Corner(m.f)), Corner(m.t))
      dbl == TypeOf(p) = P /\ Abs(m.t - m.f) = 16
      epsq == (m.f + m.t) \div 2
      tent == [bd |-> nb, stm |-> 1 - c, cr |-> cr2, ep |-> -1, hm |-> 0, fm |-> 0]
  IN [bd |-> nb, stm |-> 1 - c, cr |-> cr2,
      ep |-> IF dbl /\ EpCapturable(tent, epsq) THEN epsq ELSE -1,
      hm |-> IF TypeOf(p) = P \/ cap THEN 0 ELSE pos.hm + 1,
      fm |-> pos.fm + c]

NullMake(pos) == [pos EXCEPT !.stm = 1 - pos.stm, !.ep = -1]

(***************************************************************************)
(* Validity (the quantifier of C01..C05, C09, C16..C19)                    *)
(***************************************************************************)
CountOf(bd, pc) == Cardinality({s \in Sq : bd[s] = pc})
Max(a, b) == IF a > b THEN a ELSE b
Min(a, b) == IF a < b THEN a ELSE b

CountsReachable(bd, c) ==
  LET n == CountOf(bd, Pc(c, N)) b == CountOf(bd, Pc(c, B)) r == CountOf(bd, Pc(c, R))
      q == CountOf(bd, Pc(c, Q)) p == CountOf(bd, Pc(c, P))
      extra == Max(n - 2, 0) + Max(b - 2, 0) + Max(r - 2, 0) + Max(q - 1, 0)
  IN p + extra <= 8

EpShapeOK(pos) ==
  \/ pos.ep = -1
  \/ /\ pos.ep \in Sq
     /\ Rank(pos.ep) = (IF pos.stm = 0 THEN 5 ELSE 2)
     /\ LET behind == IF pos.stm = 0 THEN pos.ep - 8 ELSE pos.ep + 8
            origin == IF pos.stm = 0 THEN pos.ep + 8 ELSE pos.ep - 8
        IN /\ pos.bd[behind] = Pc(1 - pos.stm, P)
           /\ pos.bd[pos.ep] = 0 /\ pos.bd[origin] = 0

CastleShapeOK(pos) ==
  /\ HasRight(pos.cr, 1) => pos.bd[4] = Pc(0, K) /\ pos.bd[7] = Pc(0, R)
  /\ HasRight(pos.cr, 2) => pos.bd[4] = Pc(0, K) /\ pos.bd[0] = Pc(0, R)
  /\ HasRight(pos.cr, 4) => pos.bd[60] = Pc(1, K) /\ pos.bd[63] = Pc(1, R)
  /\ HasRight(pos.cr, 8) => pos.bd[60] = Pc(1, K) /\ pos.bd[56] = Pc(1, R)

Valid(pos) ==
  /\ Cardinality(Kings(pos.bd, 0)) = 1 /\ Cardinality(Kings(pos.bd, 1)) = 1
  /\ \A s \in Sq : TypeOf(pos.bd[s]) = P => Rank(s) \in 1..6
  /\ CountsReachable(pos.bd, 0) /\ CountsReachable(pos.bd, 1)
  /\ ~InCheck(pos.bd, 1 - pos.stm)
  /\ CastleShapeOK(pos)
  /\ EpShapeOK(pos)

\* the en-passant target is recorded only when an en-passant capture is legal
EpNormalised(pos) == pos.ep # -1 => EpCapturable(pos, pos.ep)
Normalise(pos) == IF EpNormalised(pos) THEN pos ELSE [pos EXCEPT !.ep = -1]

(***************************************************************************)
(* Status, repetition key, mirror                                          *)
(***************************************************************************)
\* 0 = moves available, 1 = checkmate, 2 = stalemate
Status(pos) == IF HasLegal(pos) THEN 0 ELSE IF InCheck(pos.bd, pos.stm) THEN 1 ELSE 2

\* same placement, side to move, castling rights and en-passant CAPTURABILITY
Key(pos) == <<pos.bd, pos.stm, pos.cr, IF EpCapturable(pos, pos.ep) THEN pos.ep ELSE -1>>

(***************************************************************************)
(* Repetition.  RepCount is the requirement of C10: occurrences of the     *)
(* current key in the history, now included, capped at three.  ScanCount   *)
(* is the shape of the code's loop: from four plies back in steps of two,  *)
(* comparing the reported hashes.                                          *)
(***************************************************************************)
RepCount(h) == Min(3, Cardinality({i \in 1..Len(h) : h[i].k = h[Len(h)].k}))
ScanCount(h) == Min(3, 1 + Cardinality({i \in 1..Len(h) : i <= Len(h) - 4 /\ (Len(h) - i) % 2 = 0 /\ h[i].h = h[Len(h)].h}))

\* a root is final when there is no legal move, the clock has run out, or the position occurred three times
Final(p, h) == ~HasLegal(p) \/ p.hm >= 100 \/ RepCount(h) >= 3

MirrorSq(s) == SqOf(File(s), 7 - Rank(s))
MirrorPc(p) == IF p = 0 THEN 0 ELSE Pc(1 - ColorOf(p), TypeOf(p))
MirrorCr(cr) == (cr % 4) * 4 + cr \div 4
Mirror(pos) == [bd |-> [s \in Sq |-> MirrorPc(pos.bd[MirrorSq(s)])], stm |-> 1 - pos.stm,
                cr |-> MirrorCr(pos.cr), ep |-> IF pos.ep = -1 THEN -1 ELSE MirrorSq(pos.ep),
                hm |-> pos.hm, fm |-> pos.fm]
MirrorM(m) == Mv(MirrorSq(m.f), MirrorSq(m.t), m.pr)

(***************************************************************************)
(* FEN printer (C11): the canonical text of a position.                    *)
(***************************************************************************)
PcChar(p) == CASE p = 1 -> "P" [] p = 2 -> "N" [] p = 3 -> "B" [] p = 4 -> "R" [] p = 5 -> "Q" [] p = 6 -> "K"
               [] p = 9 -> "p" [] p = 10 -> "n" [] p = 11 -> "b" [] p = 12 -> "r" [] p = 13 -> "q" [] p = 14 -> "k"
RECURSIVE FenRank(_, _, _, _)
\* f = next file to print (0..8), run = number of pending empty squares
FenRank(bd, r, f, run) ==
  IF f = 8 THEN (IF run > 0 THEN ToString(run) ELSE "")
  ELSE LET p == bd[SqOf(f, r)] IN
       IF p = 0 THEN FenRank(bd, r, f + 1, run + 1)
       ELSE (IF run > 0 THEN ToString(run) ELSE "") \o PcChar(p) \o FenRank(bd, r, f + 1, 0)
RECURSIVE FenRanks(_, _)
FenRanks(bd, r) == FenRank(bd, r, 0, 0) \o (IF r = 0 THEN "" ELSE "/" \o FenRanks(bd, r - 1))
FileChar(f) == <<"a", "b", "c", "d", "e", "f", "g", "h">>[f + 1]
SqName(s) == FileChar(File(s)) \o ToString(Rank(s) + 1)
FenCr(cr) == IF cr = 0 THEN "-" ELSE
   (IF HasRight(cr, 1) THEN "K" ELSE "") \o (IF HasRight(cr, 2) THEN "Q" ELSE "") \o
   (IF HasRight(cr, 4) THEN "k" ELSE "") \o (IF HasRight(cr, 8) THEN "q" ELSE "")
FenOf(pos) == FenRanks(pos.bd, 7) \o " " \o (IF pos.stm = 0 THEN "w" ELSE "b") \o " " \o FenCr(pos.cr) \o " " \o
              (IF pos.ep = -1 THEN "-" ELSE SqName(pos.ep)) \o " " \o ToString(pos.hm) \o " " \o ToString(pos.fm)

\* UCI move text
MoveText(m) == IF m = Mv(0, 0, 0) THEN "0000" ELSE
   SqName(m.f) \o SqName(m.t) \o (CASE m.pr = 0 -> "" [] m.pr = N -> "n" [] m.pr = B -> "b" [] m.pr = R -> "r" [] m.pr = Q -> "q")

StartBd == [s \in Sq |->
   CASE s \in {0, 7} -> 4 [] s \in {1, 6} -> 2 [] s \in {2, 5} -> 3 [] s = 3 -> 5 [] s = 4 -> 6
     [] s \in 8..15 -> 1 [] s \in 48..55 -> 9
     [] s \in {56, 63} -> 12 [] s \in {57, 62} -> 10 [] s \in {58, 61} -> 11 [] s = 59 -> 13 [] s = 60 -> 14
     [] OTHER -> 0]
StartPos == [bd |-> StartBd, stm |-> 0, cr |-> 15, ep |-> -1, hm |-> 0, fm |-> 1]

\* position record from the JSON projection written by the Go recorders
PosOfJson(j) == [bd |-> [s \in Sq |-> j.bd[s + 1]], stm |-> j.stm, cr |-> j.cr, ep |-> j.ep, hm |-> j.hm, fm |-> j.fm]
=============================================================================
