------------------------------ MODULE Datagen ------------------------------
(***************************************************************************)
(* The self-play game loop of tools/datagen/client/client.go               *)
(* (Generator.Game): search, record (FEN, best move, score), adjudicate,   *)
(* make the move; at the end derive the game's result (WDL) from the last  *)
(* score.  Every game of every data set the tuner is trained on is cut     *)
(* and labelled by this loop.                                              *)
(*                                                                         *)
(* The adjudication is written the way the code has it (one operator per   *)
(* branch, the winSign trick included) and checked against what it is      *)
(* meant to compute: a draw needs DrawCount consecutive plies inside the   *)
(* draw margin, a win needs WinCount consecutive plies on which THE SAME   *)
(* side is ahead by more than the win margin (scores are from the mover's  *)
(* point of view, so they alternate in sign), and the label is that side.  *)
(* The code panics when the last score is between the margins: the model   *)
(* shows that no way of ending a game gets there.                          *)
(***************************************************************************)
EXTENDS DatagenRules, Sequences, FiniteSets

\* ---- the model: a game is a sequence of (score, final?) the search reports
CONSTANTS Scores,        \* the scores a search may report on a position that is not final
          Mate,          \* what it reports for the side that is mated (a final position): -Mate
          MaxPlies, Cfgs

VARIABLES cfg, mc, adj, hist, over, label
vars == <<cfg, mc, adj, hist, over, label>>

Init == /\ cfg \in Cfgs /\ mc = 0 /\ adj = InitAdj /\ hist = <<>> /\ over = "" /\ label = ""

\* the search reports `s` for the side to move (White moves on even plies); `final`: no move comes back
Ply(s, final) ==
  /\ over = "" /\ mc < MaxPlies
  /\ hist' = Append(hist, s)
  /\ IF final
     THEN /\ over' = "final" /\ label' = Outcome(cfg, s, mc % 2) /\ UNCHANGED <<adj, mc>>
     ELSE LET r == StepAdj(adj, cfg, mc, s) IN
          /\ adj' = r.a
          /\ IF r.brk # "" THEN over' = r.brk /\ label' = Outcome(cfg, s, mc % 2) /\ UNCHANGED mc
             ELSE mc' = mc + 1 /\ UNCHANGED <<over, label>>
  /\ UNCHANGED cfg

Next == \/ \E s \in Scores : Ply(s, FALSE)
        \/ \E s \in {0, -Mate} : Ply(s, TRUE)       \* a final position: drawn (0) or the mover is mated
        \/ over # "" /\ UNCHANGED vars
Spec == Init /\ [][Next]_vars

\* ---- what it is meant to compute ---------------------------------------
\* white-relative score of ply i (1-based in hist; ply i-1 is White's when i is odd)
WhiteScore(i) == IF i % 2 = 1 THEN hist[i] ELSE -hist[i]
LastN(n) == {i \in 1..Len(hist) : i > Len(hist) - n}
Sane(c) == c.DrawMargin >= 0 /\ c.DrawMargin < c.WinMargin /\ c.WinMargin < Mate /\ c.DrawCount >= 1 /\ c.WinCount >= 1

\* the label can always be derived (the panic branch is unreachable) ...
NoPanic == Sane(cfg) => label # "panic"
\* ... a draw adjudication rests on DrawCount consecutive plies inside the margin, after DrawAfter
DrawJustified == over = "draw" =>
  /\ Len(hist) >= cfg.DrawCount /\ Len(hist) - cfg.DrawCount >= cfg.DrawAfter
  /\ \A i \in LastN(cfg.DrawCount) : Contains(cfg.DrawMargin, hist[i])
  /\ (Sane(cfg) => label = "draw")
\* ... a win adjudication on WinCount consecutive plies on which the SAME side is ahead by more than the margin
WinJustified == over = "win" =>
  /\ Len(hist) >= cfg.WinCount /\ Len(hist) - cfg.WinCount >= cfg.WinAfter
  /\ \/ \A i \in LastN(cfg.WinCount) : WhiteScore(i) > cfg.WinMargin
     \/ \A i \in LastN(cfg.WinCount) : WhiteScore(i) < -cfg.WinMargin
  /\ (Sane(cfg) => label = IF WhiteScore(Len(hist)) > 0 THEN "white" ELSE "black")
\* ... and it is not overlooked for long.  The streak test is NOT exact: the ply that breaks a streak is spent on
\* resetting the counter and is not itself examined as the start of a streak for the other side, so after a flip
\* the adjudication comes one ply late (WinNotMissedExactly is violated, TLC shows <<-700, -700, 700>> with
\* WinCount = 2; required to fail so that the observation stays true).  One ply of slack always suffices.
Favoured(n) == \/ \A i \in LastN(n) : WhiteScore(i) > cfg.WinMargin
               \/ \A i \in LastN(n) : WhiteScore(i) < -cfg.WinMargin
WinNotMissedExactly == (over = "" /\ cfg.Win /\ Len(hist) >= cfg.WinCount /\ Len(hist) - cfg.WinCount >= cfg.WinAfter) => ~Favoured(cfg.WinCount)
WinNotMissed == (over = "" /\ cfg.Win /\ Len(hist) >= cfg.WinCount + 1 /\ Len(hist) - cfg.WinCount - 1 >= cfg.WinAfter) => ~Favoured(cfg.WinCount + 1)
DrawNotMissed == (over = "" /\ cfg.Draw /\ Len(hist) >= cfg.DrawCount /\ Len(hist) - cfg.DrawCount >= cfg.DrawAfter) =>
  ~(\A i \in LastN(cfg.DrawCount) : Contains(cfg.DrawMargin, hist[i]))
\* a mate on the board is labelled for the side that mated
MateLabel == (over = "final" /\ Len(hist) > 0 /\ hist[Len(hist)] = -Mate /\ Sane(cfg)) =>
  label = IF Len(hist) % 2 = 1 THEN "black" ELSE "white"
=============================================================================
