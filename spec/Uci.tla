-------------------------------- MODULE Uci --------------------------------
(***************************************************************************)
(* The UCI driver (uci/uci.go, property C13) as communicating processes,   *)
(* one action per channel operation:                                       *)
(*                                                                         *)
(*   GUI        writes command lines to stdin / closes stdin               *)
(*   Reader     readInput: Scan; send the line on inputLines (rendezvous); *)
(*              stop after `quit` or end of input; close(inputLines)       *)
(*   Handler    handleInput/handleCommand; for `go` it spawns the          *)
(*              Interrupt goroutine, runs the search SYNCHRONOUSLY, closes *)
(*              searchFin, waits for Interrupt, then prints bestmove       *)
(*   Search     info lines (sends on the output channel, which can block), *)
(*              polls of the stop channel and of the ponderhit channel     *)
(*   Interrupt  select { searchFin, hard timer, inputLines }: stop / quit  *)
(*              / end of input close `stop`; isready answers readyok;      *)
(*              ponderhit forwards once on a channel of capacity 1         *)
(*   Writer     drains the output channel (capacity OutCap) to stdout      *)
(*                                                                         *)
(* Go's run-time failures (send on a closed channel, close of a closed     *)
(* channel) are explicit error states.  Lines are abstract: <<kind, k>>    *)
(* with k the number of the search they belong to.                         *)
(***************************************************************************)
EXTENDS Integers, Sequences, FiniteSets, TLC

CONSTANTS MaxCmds,    \* length bound of the GUI script (model checking only)
          MaxInfos,   \* info lines per search (model checking only)
          OutCap,     \* capacity of the output channel (4 in the code)
          PonderCap,  \* capacity of the ponderhit channel (1 in the code)
          Timed,      \* searches may have a hard timer
          UciLines    \* number of lines the `uci` command is answered with

VARIABLES
  pipe, guiClosed, nSent, nIsr, nLines, goSent, quitSent, lastGoPonder,   \* GUI / stdin
  rpc, rline, inClosed,                                                   \* reader
  hpc, hline, goId, pending,                                              \* handler
  spc, infos, pondering,                                                  \* search
  ipc, iline, stopClosed, finClosed, ponderChan, ponderLocal, ponderOpen, timerArmed, igQuit,  \* interrupt + per-search channels
  out, outClosed, wpc, whold, stdout,                                     \* output (whold: the line the writer has taken off the channel)
  err                                                                     \* Go run-time panic (string) or ""

vars == <<pipe, guiClosed, nSent, nIsr, nLines, goSent, quitSent, lastGoPonder, rpc, rline, inClosed, hpc, hline, goId, pending,
          spc, infos, pondering, ipc, iline, stopClosed, finClosed, ponderChan, ponderLocal, ponderOpen, timerArmed, igQuit,
          out, outClosed, wpc, whold, stdout, err>>

guiV == <<pipe, guiClosed, nSent, nIsr, nLines, goSent, quitSent, lastGoPonder>>
readerV == <<rpc, rline, inClosed>>
handlerV == <<hpc, hline, goId, pending>>
searchV == <<spc, infos, pondering>>
intV == <<ipc, iline, stopClosed, finClosed, ponderChan, ponderLocal, ponderOpen, timerArmed, igQuit>>
outV == <<out, outClosed, wpc, whold, stdout>>

\* commands: go = `go` without ponder, goponder = `go ponder` with the Ponder option on,
\* one = a command answered with one line (fen, eval), uci = answered with several lines, pos = no answer
Cmds == {"isready", "go", "goponder", "stop", "ponderhit", "pos", "one", "uci", "quit"}

BestSeen == Cardinality({i \in 1..Len(stdout) : stdout[i][1] = "bestmove"})
Outstanding == goSent > BestSeen

Init ==
  /\ pipe = <<>> /\ guiClosed = FALSE /\ nSent = 0 /\ nIsr = 0 /\ nLines = 0 /\ goSent = 0 /\ quitSent = FALSE /\ lastGoPonder = FALSE
  /\ rpc = "scan" /\ rline = "none" /\ inClosed = FALSE
  /\ hpc = "recv" /\ hline = "none" /\ goId = 0 /\ pending = <<>>
  /\ spc = "idle" /\ infos = 0 /\ pondering = FALSE
  /\ ipc = "idle" /\ iline = "none" /\ stopClosed = FALSE /\ finClosed = FALSE
  /\ ponderChan = 0 /\ ponderLocal = FALSE /\ ponderOpen = FALSE /\ timerArmed = FALSE /\ igQuit = FALSE
  /\ out = <<>> /\ outClosed = FALSE /\ wpc = "run" /\ whold = <<>> /\ stdout = <<>>
  /\ err = ""

\* a fresh driver (used by the trace specification to start the next scenario)
Reset ==
  /\ pipe' = <<>> /\ guiClosed' = FALSE /\ nSent' = 0 /\ nIsr' = 0 /\ nLines' = 0 /\ goSent' = 0 /\ quitSent' = FALSE /\ lastGoPonder' = FALSE
  /\ rpc' = "scan" /\ rline' = "none" /\ inClosed' = FALSE
  /\ hpc' = "recv" /\ hline' = "none" /\ goId' = 0 /\ pending' = <<>>
  /\ spc' = "idle" /\ infos' = 0 /\ pondering' = FALSE
  /\ ipc' = "idle" /\ iline' = "none" /\ stopClosed' = FALSE /\ finClosed' = FALSE
  /\ ponderChan' = 0 /\ ponderLocal' = FALSE /\ ponderOpen' = FALSE /\ timerArmed' = FALSE /\ igQuit' = FALSE
  /\ out' = <<>> /\ outClosed' = FALSE /\ wpc' = "run" /\ whold' = <<>> /\ stdout' = <<>>
  /\ err' = ""

(***************************** GUI (conforming scripts) *****************************)
\* a conforming GUI sends position/go only when no bestmove is outstanding (as seen on stdout), ponderhit only
\* while a ponder search is outstanding, nothing after quit
Conforming(c) ==
  /\ ~guiClosed /\ ~quitSent
  /\ c \in {"go", "goponder", "pos", "one", "uci"} => ~Outstanding
  /\ c = "ponderhit" => (Outstanding /\ lastGoPonder)
  /\ c = "stop" => TRUE

GuiSend(c) ==
  /\ Conforming(c)
  /\ pipe' = Append(pipe, c) /\ nSent' = nSent + 1
  /\ nIsr' = IF c = "isready" THEN nIsr + 1 ELSE nIsr
  /\ nLines' = nLines + (IF c = "one" THEN 1 ELSE IF c = "uci" THEN UciLines ELSE 0)
  /\ goSent' = IF c \in {"go", "goponder"} THEN goSent + 1 ELSE goSent
  /\ lastGoPonder' = IF c = "goponder" THEN TRUE ELSE IF c = "go" THEN FALSE ELSE IF c = "ponderhit" THEN FALSE ELSE lastGoPonder
  /\ quitSent' = (c = "quit")
  /\ UNCHANGED <<guiClosed, readerV, handlerV, searchV, intV, outV, err>>

GuiClose ==
  /\ ~guiClosed /\ guiClosed' = TRUE
  /\ UNCHANGED <<pipe, nSent, nIsr, nLines, goSent, quitSent, lastGoPonder, readerV, handlerV, searchV, intV, outV, err>>

(***************************** Reader *****************************)
RScan ==
  /\ rpc = "scan"
  /\ \/ /\ pipe # <<>> /\ rline' = Head(pipe) /\ pipe' = Tail(pipe) /\ rpc' = "send"
     \/ /\ pipe = <<>> /\ guiClosed /\ rpc' = "close" /\ UNCHANGED <<rline, pipe>>
  /\ UNCHANGED <<guiClosed, nSent, nIsr, nLines, goSent, quitSent, lastGoPonder, inClosed, handlerV, searchV, intV, outV, err>>

RClose ==
  /\ rpc = "close" /\ inClosed' = TRUE /\ rpc' = "done"
  /\ UNCHANGED <<guiV, rline, handlerV, searchV, intV, outV, err>>

AfterSend == IF rline = "quit" THEN "close" ELSE "scan"

\* rendezvous Reader -> Handler (range d.inputLines)
SendToHandler ==
  /\ rpc = "send" /\ hpc = "recv"
  /\ hline' = rline /\ hpc' = "exec" /\ rpc' = AfterSend
  /\ UNCHANGED <<guiV, rline, inClosed, goId, pending, searchV, intV, outV, err>>

\* rendezvous Reader -> Interrupt (select case line := <-d.inputLines)
SendToInterrupt ==
  /\ rpc = "send" /\ ipc = "select"
  /\ iline' = rline /\ ipc' = "handle" /\ rpc' = AfterSend
  /\ UNCHANGED <<guiV, rline, inClosed, handlerV, searchV, stopClosed, finClosed, ponderChan, ponderLocal, ponderOpen, timerArmed, igQuit, outV, err>>

(***************************** output channel *****************************)
\* a send on the output channel: blocks while full; panics when closed
CanEnq == Len(out) < OutCap
Enq(line) == IF outClosed THEN err' = "send on closed output channel" /\ UNCHANGED out
             ELSE out' = Append(out, line) /\ UNCHANGED err

(***************************** Handler *****************************)
HRecvClosed ==
  /\ hpc = "recv" /\ inClosed /\ rpc = "done" /\ hpc' = "closeOut"
  /\ UNCHANGED <<guiV, readerV, hline, goId, pending, searchV, intV, outV, err>>

\* handleCommand: decide what the command needs
HExec ==
  /\ hpc = "exec"
  /\ \/ /\ hline = "isready" /\ pending' = <<<<"readyok", 0>>>> /\ hpc' = "emit"
        /\ UNCHANGED <<goId, searchV, intV>>
     \/ /\ hline = "one" /\ pending' = <<<<"line", 0>>>> /\ hpc' = "emit"
        /\ UNCHANGED <<goId, searchV, intV>>
     \/ /\ hline = "uci" /\ pending' = [i \in 1..UciLines |-> <<"line", 0>>] /\ hpc' = "emit"
        /\ UNCHANGED <<goId, searchV, intV>>
     \/ /\ hline \in {"go", "goponder"}
        \* handleGo: fresh stop/searchFin (and ponderhit) channels, spawn the interrupt goroutine, call search.Go
        /\ goId' = goId + 1 /\ infos' = 0 /\ pondering' = (hline = "goponder")
        /\ ipc' = "select" /\ stopClosed' = FALSE /\ finClosed' = FALSE /\ igQuit' = FALSE
        /\ ponderChan' = 0 /\ ponderLocal' = (hline = "goponder") /\ ponderOpen' = (hline = "goponder")
        /\ timerArmed' = (Timed /\ hline = "go")
        /\ hpc' = "search" /\ spc' = "run" /\ UNCHANGED <<pending, iline>>
     \/ /\ hline \notin {"isready", "one", "uci", "go", "goponder"} /\ hpc' = "recv"
        /\ UNCHANGED <<goId, pending, searchV, intV>>
  /\ UNCHANGED <<guiV, readerV, hline, outV, err>>

\* Fprintln(d.output, ...) for each pending line
HEmit ==
  /\ hpc = "emit"
  /\ IF pending = <<>> THEN hpc' = "recv" /\ UNCHANGED <<pending, out, err>>
     ELSE CanEnq /\ Enq(Head(pending)) /\ pending' = Tail(pending) /\ UNCHANGED hpc
  /\ UNCHANGED <<guiV, readerV, hline, goId, searchV, intV, outClosed, wpc, whold, stdout>>

(***************************** Search (runs on the handler's goroutine) *****************************)
SInfo ==     \* an info line: a (possibly blocking) send on the output channel
  /\ hpc = "search" /\ spc = "run" /\ CanEnq /\ Enq(<<"info", goId>>) /\ infos' = infos + 1
  /\ UNCHANGED <<guiV, readerV, handlerV, spc, pondering, intV, outClosed, wpc, whold, stdout>>

SPollStop == \* s.abort(): non-blocking read of the stop channel; a closed channel aborts the search
  /\ hpc = "search" /\ spc = "run" /\ stopClosed /\ spc' = "ret"
  /\ UNCHANGED <<guiV, readerV, handlerV, infos, pondering, intV, outV, err>>

SPollPonder == \* non-blocking read of the ponderhit channel between iterations
  /\ hpc = "search" /\ spc = "run" /\ pondering /\ ponderChan > 0
  /\ ponderChan' = ponderChan - 1 /\ pondering' = FALSE
  /\ UNCHANGED <<guiV, readerV, handlerV, spc, infos, ipc, iline, stopClosed, finClosed, ponderLocal, ponderOpen, timerArmed, igQuit, outV, err>>

SFinish ==   \* the search ends on its own (depth / soft limit / node budget / MaxPlies)
  /\ hpc = "search" /\ spc = "run" /\ spc' = "ret"
  /\ UNCHANGED <<guiV, readerV, handlerV, infos, pondering, intV, outV, err>>

\* back in handleGo: close(searchFin)
HCloseFin ==
  /\ hpc = "search" /\ spc = "ret"
  /\ IF finClosed THEN err' = "close of closed searchFin" /\ UNCHANGED finClosed ELSE finClosed' = TRUE /\ UNCHANGED err
  /\ hpc' = "wait" /\ spc' = "idle"
  /\ UNCHANGED <<guiV, readerV, hline, goId, pending, infos, pondering, ipc, iline, stopClosed, ponderChan, ponderLocal, ponderOpen, timerArmed, igQuit, outV>>

\* wg.Wait(): the interrupt goroutine has returned
HWait ==
  /\ hpc = "wait" /\ ipc = "done" /\ ipc' = "idle"
  /\ pending' = <<<<"bestmove", goId>>>> /\ hpc' = "best"
  /\ UNCHANGED <<guiV, readerV, hline, goId, searchV, iline, stopClosed, finClosed, ponderChan, ponderLocal, ponderOpen, timerArmed, igQuit, outV, err>>

\* bestmove line, then the deferred close(ponderHit), then back to the command loop
HBest ==
  /\ hpc = "best" /\ CanEnq /\ Enq(Head(pending)) /\ pending' = <<>>
  /\ ponderOpen' = FALSE
  /\ hpc' = "recv"
  /\ UNCHANGED <<guiV, readerV, hline, goId, searchV, ipc, iline, stopClosed, finClosed, ponderChan, ponderLocal, timerArmed, igQuit, outClosed, wpc, whold, stdout>>

HCloseOut ==
  /\ hpc = "closeOut"
  /\ IF outClosed THEN err' = "close of closed output channel" /\ UNCHANGED outClosed ELSE outClosed' = TRUE /\ UNCHANGED err
  /\ hpc' = "done"
  /\ UNCHANGED <<guiV, readerV, hline, goId, pending, searchV, intV, out, wpc, whold, stdout>>

(***************************** Interrupt goroutine *****************************)
ISelect ==
  /\ ipc = "select"
  /\ \/ /\ finClosed /\ ipc' = "closeStop" /\ UNCHANGED timerArmed
     \/ /\ timerArmed /\ ipc' = "closeStop" /\ timerArmed' = FALSE          \* hard timer fires
     \/ /\ inClosed /\ rpc = "done" /\ ipc' = "closeStop" /\ UNCHANGED timerArmed   \* inputLines closed
  /\ UNCHANGED <<guiV, readerV, handlerV, searchV, iline, stopClosed, finClosed, ponderChan, ponderLocal, ponderOpen, igQuit, outV, err>>

IHandle ==
  /\ ipc = "handle"
  /\ \/ /\ iline = "ponderhit"
        /\ IF ponderLocal
           THEN \* ponderHit <- time.Now(): blocks while the channel is full, panics when closed
                /\ ponderChan < PonderCap
                /\ IF ponderOpen THEN ponderChan' = ponderChan + 1 /\ UNCHANGED err
                   ELSE err' = "send on closed ponderhit channel" /\ UNCHANGED ponderChan
                /\ ponderLocal' = FALSE
           ELSE UNCHANGED <<ponderChan, ponderLocal, err>>
        /\ timerArmed' = (timerArmed \/ (Timed /\ pondering))
        /\ ipc' = "select" /\ UNCHANGED <<out, igQuit>>
     \/ /\ iline = "stop" /\ ipc' = "closeStop" /\ UNCHANGED <<ponderChan, ponderLocal, timerArmed, out, igQuit, err>>
     \/ /\ iline = "quit" /\ ipc' = "closeStop" /\ igQuit' = TRUE /\ UNCHANGED <<ponderChan, ponderLocal, timerArmed, out, err>>
     \/ /\ iline = "isready" /\ CanEnq /\ Enq(<<"readyok", 0>>) /\ ipc' = "select"
        /\ UNCHANGED <<ponderChan, ponderLocal, timerArmed, igQuit>>
     \/ /\ iline \notin {"ponderhit", "stop", "quit", "isready"} /\ ipc' = "select"   \* swallowed
        /\ UNCHANGED <<ponderChan, ponderLocal, timerArmed, out, igQuit, err>>
  /\ UNCHANGED <<guiV, readerV, handlerV, searchV, iline, stopClosed, finClosed, ponderOpen, outClosed, wpc, whold, stdout>>

ICloseStop ==   \* deferred close(stop)
  /\ ipc = "closeStop"
  /\ IF stopClosed THEN err' = "close of closed stop channel" /\ UNCHANGED stopClosed ELSE stopClosed' = TRUE /\ UNCHANGED err
  /\ ipc' = "done"
  /\ UNCHANGED <<guiV, readerV, handlerV, searchV, iline, finClosed, ponderChan, ponderLocal, ponderOpen, timerArmed, igQuit, outV>>

(***************************** Writer *****************************)
\* for line := range channel { writer.Write(line) }: the writer takes a line off the channel, then writes it
WTake ==
  /\ wpc = "run" /\ whold = <<>> /\ out # <<>>
  /\ whold' = Head(out) /\ out' = Tail(out)
  /\ UNCHANGED <<guiV, readerV, handlerV, searchV, intV, outClosed, wpc, stdout, err>>
WPut ==
  /\ wpc = "run" /\ whold # <<>>
  /\ stdout' = Append(stdout, whold) /\ whold' = <<>>
  /\ UNCHANGED <<guiV, readerV, handlerV, searchV, intV, out, outClosed, wpc, err>>
WDone ==
  /\ wpc = "run" /\ whold = <<>> /\ out = <<>> /\ outClosed /\ wpc' = "done"
  /\ UNCHANGED <<guiV, readerV, handlerV, searchV, intV, out, outClosed, whold, stdout, err>>
WStep == WTake \/ WPut \/ WDone

Done == rpc = "done" /\ hpc = "done" /\ wpc = "done" /\ ipc = "idle"

\* the driver's own steps (everything but the GUI and the search's free choices)
DriverNext == RScan \/ RClose \/ SendToHandler \/ SendToInterrupt \/ HRecvClosed \/ HExec \/ HEmit \/ HCloseFin \/ HWait \/ HBest \/ HCloseOut
              \/ ISelect \/ IHandle \/ ICloseStop \/ WStep
SearchNext == SInfo \/ SPollStop \/ SPollPonder \/ SFinish
=============================================================================
