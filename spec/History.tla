------------------------------ MODULE History ------------------------------
(***************************************************************************)
(* The "gravity" update shared by heur.History, heur.Continuation and      *)
(* heur.CaptHist (C16):                                                    *)
(*      h' = h + c - h*|c| / MaxHistory,   c = clamp(bonus, -Max, Max)     *)
(* with Go's truncating integer division.  OneStepBound is the exhaustive  *)
(* obligation of C16: for EVERY stored value and EVERY clamped bonus the   *)
(* new value stays inside the band, hence by induction any sequence of     *)
(* updates does.  Band layout (heur.go): a quiet move's weight is the sum  *)
(* of three such values, so |w| <= 3*MaxHistory < Captures, far above the  *)
(* "already yielded" sentinel -HashMove.                                   *)
(***************************************************************************)
EXTENDS Integers

MaxHistory == 1024
HashMoveW == 16 * 1024
Captures == 7 * 1024
CaptureRange == 1024

AbsI(x) == IF x < 0 THEN -x ELSE x
TruncDiv(a, b) == IF a >= 0 THEN a \div b ELSE -((-a) \div b)
ClampI(x, lo, hi) == IF x < lo THEN lo ELSE IF x > hi THEN hi ELSE x
Step(h, bonus) == LET c == ClampI(bonus, -MaxHistory, MaxHistory) IN h + c - TruncDiv(h * AbsI(c), MaxHistory)

InBand(h) == -MaxHistory <= h /\ h <= MaxHistory
\* exhaustive over all stored values and all (clamped) bonuses; Rows restricts h for sharding
OneStepBoundOn(Rows) == \A h \in Rows : \A c \in (-MaxHistory)..MaxHistory : InBand(Step(h, c))
OneStepBound == OneStepBoundOn((-MaxHistory)..MaxHistory)
\* a fixed point analysis in two lines: saturation is reached and held, never crossed
Saturates == Step(MaxHistory, MaxHistory) = MaxHistory /\ Step(-MaxHistory, -MaxHistory) = -MaxHistory

\* band layout assertions
QuietBand == 3 * MaxHistory
LayoutOK == /\ QuietBand < Captures                       \* quiets never reach the good-capture band
            /\ -QuietBand > -Captures                     \* ... nor the bad-capture band
            /\ -Captures - CaptureRange > -HashMoveW + 1  \* bad captures stay above the sentinel threshold
            /\ Captures + CaptureRange < HashMoveW        \* good captures stay below the hash move
=============================================================================
