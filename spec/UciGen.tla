------------------------------- MODULE UciGen -------------------------------
(***************************************************************************)
(* Model -> implementation for C13: TLC enumerates EVERY conforming GUI     *)
(* script of at most MaxCmds commands together with every order of the     *)
(* mock search's steps, in a sequentialised semantics: the GUI and the     *)
(* search act only when the driver is quiescent, the driver's own steps    *)
(* run in a fixed priority order (their interleavings are explored by the  *)
(* free-running scenarios and by UciMC).  Each complete behaviour is       *)
(* printed as a PATH: the visible steps, each with the number of output    *)
(* lines the driver has produced when the step is taken, and the final     *)
(* output.  The replayer performs the steps on a real driver, waiting for  *)
(* exactly that many lines before each step.                               *)
(***************************************************************************)
EXTENDS Uci, Json

CONSTANT MaxSearchSteps
VARIABLES path, steps
gvars2 == <<vars, path, steps>>

\* driver steps in a fixed priority order (one successor)
Pri == <<"RScan", "RClose", "SendToHandler", "SendToInterrupt", "HRecvClosed", "HExec", "HEmit", "HCloseFin", "HWait", "HBest", "HCloseOut",
         "ISelect", "IHandle", "ICloseStop", "WTake", "WPut", "WDone">>
Act(n) == CASE n = "RScan" -> RScan [] n = "RClose" -> RClose [] n = "SendToHandler" -> SendToHandler [] n = "SendToInterrupt" -> SendToInterrupt
            [] n = "HRecvClosed" -> HRecvClosed [] n = "HExec" -> HExec [] n = "HEmit" -> HEmit [] n = "HCloseFin" -> HCloseFin [] n = "HWait" -> HWait
            [] n = "HBest" -> HBest [] n = "HCloseOut" -> HCloseOut [] n = "ISelect" -> ISelect [] n = "IHandle" -> IHandle [] n = "ICloseStop" -> ICloseStop
            [] n = "WTake" -> WTake [] n = "WPut" -> WPut [] n = "WDone" -> WDone
\* the hard timer cannot be scheduled by a replayer: generated behaviours use untimed searches (Timed = FALSE)
DriverEnabled == \E i \in 1..Len(Pri) : ENABLED Act(Pri[i])
First == CHOOSE i \in 1..Len(Pri) : ENABLED Act(Pri[i]) /\ \A j \in 1..(i - 1) : ~ENABLED Act(Pri[j])
DriverStep == DriverEnabled /\ Act(Pri[First]) /\ UNCHANGED <<path, steps>>

Quiet == ~DriverEnabled
NOut == Len(stdout)
Rec(kind, arg) == path' = Append(path, [k |-> kind, a |-> arg, n |-> NOut])

GuiStep == /\ Quiet /\ nSent < MaxCmds
           /\ \E c \in Cmds : GuiSend(c) /\ Rec("send", c)
           /\ UNCHANGED steps
GuiEof == Quiet /\ GuiClose /\ Rec("eof", "") /\ UNCHANGED steps
SearchStep ==
  /\ Quiet /\ hpc = "search" /\ spc = "run" /\ steps < MaxSearchSteps /\ steps' = steps + 1
  /\ \/ infos < MaxInfos /\ SInfo /\ Rec("search", "info")
     \/ stopClosed /\ SPollStop /\ Rec("search", "pollT")
     \/ ~stopClosed /\ UNCHANGED vars /\ Rec("search", "pollF")
     \/ UNCHANGED vars /\ ~(pondering /\ ponderChan > 0) /\ Rec("search", "ponderF")
     \/ pondering /\ ponderChan > 0 /\ SPollPonder /\ Rec("search", "ponderT")
\* the search must end eventually: finish is always allowed
SearchFinish == Quiet /\ hpc = "search" /\ spc = "run" /\ SFinish /\ Rec("search", "finish") /\ steps' = 0

Init2 == Init /\ path = <<>> /\ steps = 0
Next2 == DriverStep \/ GuiStep \/ GuiEof \/ SearchStep \/ SearchFinish

Kinds == [i \in 1..Len(stdout) |-> stdout[i][1]]
\* printed for every terminated behaviour
Emit == Done => PrintT("PATH " \o ToJson([steps |-> path, out |-> Kinds]))
=============================================================================
