-------------------------------- MODULE TTMC --------------------------------
(* Model-checking instances of TT.tla (negative numbers cannot be written in a cfg). *)
EXTENDS TT

(***************************************************************************)
(* Stand-alone specification for exhaustive model checking (small domains) *)
(***************************************************************************)
CONSTANTS SIGS, GENS, DEPTHS, PLIES, VALS, MOVES, NBS, MAXOPS
VARIABLE ops

Init == tbl = <<>> /\ ghost = <<>> /\ nb = 1 /\ ops = 0
DoInsert ==
  \E b \in 0..(nb - 1), sig \in SIGS, gen \in GENS, d \in DEPTHS, ply \in PLIES, mv \in MOVES, val \in VALS, typ \in {Upper, Lower, Exact} :
     /\ Insert(b, sig, gen, d, ply, mv, val, typ)
     /\ Assert(ProbeAfterStore(b, sig, gen, d, ply, mv, val, typ), <<"ProbeAfterStore", b, sig, gen, d, ply, mv, val, typ>>)
     /\ Assert(AtMostOneEviction(b, sig, gen, d, ply, mv, val, typ), <<"AtMostOneEviction", b, sig, gen, d, ply, mv, val, typ>>)
Next == /\ ops < MAXOPS /\ ops' = ops + 1
        /\ \/ DoInsert
           \/ Clear
           \/ \E n \in NBS : ResizeThenClear(n)
Spec == Init /\ [][Next]_<<ttvars, ops>>

\* simulation: parameters are drawn inside the action (TLC enumerates all successors otherwise)
SimInsert ==
  LET b == RandomElement(0..(nb - 1)) sig == RandomElement(SIGS) gen == RandomElement(GENS) d == RandomElement(DEPTHS)
      ply == RandomElement(PLIES) mv == RandomElement(MOVES) val == RandomElement(VALS) typ == RandomElement({Upper, Lower, Exact})
  IN /\ Insert(b, sig, gen, d, ply, mv, val, typ)
     /\ Assert(ProbeAfterStore(b, sig, gen, d, ply, mv, val, typ), <<"ProbeAfterStore", b, sig, gen, d, ply, mv, val, typ>>)
     /\ Assert(AtMostOneEviction(b, sig, gen, d, ply, mv, val, typ), <<"AtMostOneEviction", b, sig, gen, d, ply, mv, val, typ>>)
SimNext == /\ ops < MAXOPS /\ ops' = ops + 1
           /\ IF RandomElement(1..20) = 1 THEN Clear ELSE SimInsert
SimSpec == Init /\ [][SimNext]_<<ttvars, ops>>

ValsA == {9990, 50, -9990, 9936, -9936}
ValsB == {17}
ValsSim == {-10000, -9999, -9990, -9937, -9936, -9935, -300, 0, 1, 250, 9935, 9936, 9937, 9950, 10000}
AllDepths == 0..63
AllGens == 0..255
SomeGens == {0, 1, 2, 3, 127, 128, 253, 254, 255}
SimSigs == {0, 1, 2, 3, 4, 5, 6, 32768, 65535}
=============================================================================
