---------------------------- MODULE DatagenTrace ----------------------------
(***************************************************************************)
(* Binds DatagenRules.tla and Chess.tla to the real self-play loop         *)
(* (tools/datagen/client: Generator.Game, compiled unmodified against a    *)
(* stand-in for the gRPC client) driving the real search: one event per    *)
(* game with the configuration, every recorded (FEN, best move, score) and *)
(* the label.  TLC replays the game by the rules and the adjudication by   *)
(* the rules of DatagenRules and requires                                  *)
(*   - the first position is the opening handed out, every recorded move   *)
(*     is legal and every next FEN is its successor (D/...consecutive),    *)
(*   - the game goes on exactly as long as neither a null move came back   *)
(*     nor an adjudication fired (D/game-continued..., D/game-ended...),   *)
(*   - the label is the outcome of the last score (D/label).               *)
(* Rules D/... extend the listed properties (they are what C06-C08's user, *)
(* the data generator, relies on) and are reported as an extension.        *)
(***************************************************************************)
EXTENDS Chess, DatagenRules, Json, IOUtils, TLC

Trace == ndJsonDeserialize(IOEnv.TRACE)
VARIABLE l

MM(ev, rule, detail) == PrintT("MM " \o ToJson([l |-> l, t |-> ev.t, rule |-> rule, class |-> "", detail |-> detail]))
Expect(c, ev, rule, detail) == IF c THEN TRUE ELSE MM(ev, rule, detail)

\* counters before ply k (1-based), by the rules
RECURSIVE AdjBefore(_, _)
AdjBefore(ev, k) == IF k = 1 THEN InitAdj ELSE StepAdj(AdjBefore(ev, k - 1), ev.cfg, k - 2, ev.ps[k - 1].score).a

Judge(ev) ==
  LET n == Len(ev.ps)
      PosAt(k) == PosOfJson(ev.ps[k].pos)
  IN
  /\ Expect(n >= 1 /\ ev.ps[1].fen = ev.opening, ev, "D/first-position-is-not-the-opening", [opening |-> ev.opening])
  /\ \A k \in 1..n : Expect(FenOf(PosAt(k)) = ev.ps[k].fen, ev, "INFRA/harness-fen-reading", [k |-> k, fen |-> ev.ps[k].fen])
  /\ \A k \in 1..(n - 1) :
        LET m == DecM(ev.ps[k].bm) IN
        /\ Expect(ev.ps[k].bm # 0 /\ m \in Pseudo(PosAt(k)) /\ LegalM(PosAt(k), m), ev, "D/recorded-move-not-legal", [k |-> k, fen |-> ev.ps[k].fen, bm |-> ev.ps[k].bm])
        /\ IF ev.ps[k].bm # 0 /\ m \in Pseudo(PosAt(k)) /\ LegalM(PosAt(k), m)
           THEN Expect(FenOf(Make(PosAt(k), m)) = ev.ps[k + 1].fen, ev, "D/positions-not-consecutive", [k |-> k, fen |-> ev.ps[k].fen, bm |-> ev.ps[k].bm, next |-> ev.ps[k + 1].fen, want |-> FenOf(Make(PosAt(k), m))])
           ELSE TRUE
        \* the game went on after ply k: nothing may have fired there
        /\ Expect(StepAdj(AdjBefore(ev, k), ev.cfg, k - 1, ev.ps[k].score).brk = "", ev, "D/game-continued-after-adjudication",
                  [k |-> k, fired |-> StepAdj(AdjBefore(ev, k), ev.cfg, k - 1, ev.ps[k].score).brk, score |-> ev.ps[k].score])
  \* it ended at ply n: a null move came back, or an adjudication fired exactly there
  /\ IF n >= 1
     THEN /\ Expect(ev.ps[n].bm = 0 \/ StepAdj(AdjBefore(ev, n), ev.cfg, n - 1, ev.ps[n].score).brk # "", ev, "D/game-ended-without-reason",
                    [plies |-> n, score |-> ev.ps[n].score, counters |-> AdjBefore(ev, n)])
          \* a last move, if there is one, is legal too
          /\ Expect(ev.ps[n].bm = 0 \/ (DecM(ev.ps[n].bm) \in Pseudo(PosAt(n)) /\ LegalM(PosAt(n), DecM(ev.ps[n].bm))), ev, "D/recorded-move-not-legal", [k |-> n, fen |-> ev.ps[n].fen, bm |-> ev.ps[n].bm])
          /\ LET want == Outcome(ev.cfg, ev.ps[n].score, PosAt(n).stm) IN
             Expect(want = "panic" \/ ev.wdl = CASE want = "draw" -> 0 [] want = "white" -> 1 [] OTHER -> 2, ev, "D/label", [want |-> want, got |-> ev.wdl, score |-> ev.ps[n].score, stm |-> PosAt(n).stm])
     ELSE TRUE

TGame == /\ l <= Len(Trace) /\ Trace[l].ev = "dgame" /\ Judge(Trace[l]) /\ l' = l + 1
\* the loop panicked ("cannot determine game outcome") or the process died
TPanic == /\ l <= Len(Trace) /\ Trace[l].ev = "dpanic" /\ MM(Trace[l], "D/game-loop-panicked", [msg |-> Trace[l].msg, opening |-> Trace[l].opening]) /\ l' = l + 1
TInit == l = 1
TNext == TGame \/ TPanic
Done == PrintT("DONE " \o ToString(TLCGet("stats").diameter - 1) \o " " \o ToString(Len(Trace)))
=============================================================================
