--------------------------- MODULE SamplingTrace ---------------------------
(* Binds Sampling.tla to tools/extract/sampling (compiled unmodified).      *)
EXTENDS Sampling, Json, IOUtils, TLC

Trace == ndJsonDeserialize(IOEnv.TRACE)
VARIABLE l
MM(ev, rule, detail) == PrintT("MM " \o ToJson([l |-> l, t |-> ev.t, rule |-> rule, class |-> "", detail |-> detail]))
Expect(c, ev, rule, detail) == IF c THEN TRUE ELSE MM(ev, rule, detail)
Abs(x) == IF x < 0 THEN -x ELSE x

Judge(ev) ==
  CASE ev.ev = "combined" ->
         /\ Expect(ev.dim = Dim(ev.dims), ev, "E/combined-dimension", [dims |-> ev.dims, got |-> ev.dim])
         /\ Expect(ev.value = Value(ev.dims, ev.vals), ev, "E/combined-index", [dims |-> ev.dims, vals |-> ev.vals, got |-> ev.value, want |-> Value(ev.dims, ev.vals)])
    [] ev.ev = "scale" ->
         Expect(ev.value = ScaleValue(ev.v, ev.dim, ev.size), ev, "E/scale-value", [v |-> ev.v, dim |-> ev.dim, size |-> ev.size, got |-> ev.value, want |-> ScaleValue(ev.v, ev.dim, ev.size)])
    [] ev.ev = "uniform" ->
         \* keep[v] (logged times 10^5) equals min/count within rounding: |keep5 * count - min * 10^5| <= count
         \A v \in 1..Len(ev.counts) :
            LET fr == KeepFrac(ev.counts, v) IN
            Expect(Abs(ev.keep5[v] * fr[2] - fr[1] * 100000) <= fr[2], ev, "E/uniform-keep-probability", [counts |-> ev.counts, bin |-> v - 1, keepTimes100000 |-> ev.keep5[v], want |-> fr])
    [] OTHER -> MM(ev, "INFRA/unknown-event", [ev |-> ev.ev])

TInit == l = 1
TNext == l <= Len(Trace) /\ Judge(Trace[l]) /\ l' = l + 1
Done == PrintT("DONE " \o ToString(TLCGet("stats").diameter - 1) \o " " \o ToString(Len(Trace)))
=============================================================================
