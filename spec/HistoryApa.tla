----------------------------- MODULE HistoryApa -----------------------------
(* Apalache: the one-step band bound of History.tla for every stored value in the band and EVERY integer bonus
   (the clamp is part of Step):  apalache-mc check --init=Init --inv=Inv --length=0 HistoryApa.tla *)
EXTENDS History
VARIABLES
  \* @type: Int;
  h,
  \* @type: Int;
  bonus
Init == h \in (-MaxHistory)..MaxHistory /\ bonus \in Int
Next == UNCHANGED <<h, bonus>>
Inv == InBand(Step(h, bonus))
\* three such values never leave the quiet band and the layout keeps the bands apart
Inv2 == LayoutOK
=============================================================================
