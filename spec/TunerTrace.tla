----------------------------- MODULE TunerTrace -----------------------------
(***************************************************************************)
(* Trace validation of the tuner's epoch pipeline (C20) and of the         *)
(* parameter-vector mapping and float/int evaluation agreement (C19).      *)
(* The recorder drives NewChunker / tuning.Batches / tuning.Chunks /       *)
(* Open / Read exactly as client.go and server.go do and logs every call.  *)
(***************************************************************************)
EXTENDS Tuner, Json, IOUtils

Trace == ndJsonDeserialize(IOEnv.TRACE)
VARIABLES l, file, delivered, bnext, cur, cnext, perm
tvars == <<l, file, delivered, bnext, cur, cnext, perm>>

MM(ev, rule, detail) == PrintT("MM " \o ToJson([l |-> l, t |-> ev.t, rule |-> rule, class |-> "", detail |-> detail]))
Expect(c, ev, rule, detail) == IF c THEN TRUE ELSE MM(ev, rule, detail)
IsEvent(e) == l <= Len(Trace) /\ Trace[l].ev = e /\ l' = l + 1
ToSet(q) == {q[i] : i \in 1..Len(q)}

\* a blank line is logged as "" (text mode) or <<0, "">> (digest mode: <<length, fnv hash>>)
Blank(x, digest) == IF digest THEN x[1] = 0 ELSE x = ""
N == Len(file)

TFile ==
  /\ IsEvent("file")
  /\ file' = SelectSeq(Trace[l].raw, LAMBDA x : ~Blank(x, Trace[l].digest))
  /\ delivered' = {} /\ bnext' = 0 /\ cur' = [s |-> 0, e |-> 0] /\ cnext' = 0 /\ perm' = <<>>

TCount ==
  /\ IsEvent("count")
  /\ Expect(Trace[l].n = N, Trace[l], "C20/line-count", [got |-> Trace[l].n, nonBlankLines |-> N])
  /\ UNCHANGED <<file, delivered, bnext, cur, cnext, perm>>

TEpoch ==
  /\ IsEvent("epoch")
  /\ delivered' = {} /\ bnext' = 0 /\ cur' = [s |-> 0, e |-> 0] /\ cnext' = 0
  /\ UNCHANGED <<file, perm>>

\* batches partition 0..N-1 in order
TBatch ==
  /\ IsEvent("batch")
  /\ LET ev == Trace[l] IN
       /\ Expect(cnext = cur.e, ev, "C20/chunks-do-not-cover-the-batch", [batch |-> cur, reached |-> cnext])
       /\ Expect(ev.s = bnext /\ ev.s < ev.e /\ ev.e <= N, ev, "C20/batches-do-not-partition", [expectedStart |-> bnext, got |-> <<ev.s, ev.e>>, n |-> N])
       /\ bnext' = ev.e /\ cur' = [s |-> ev.s, e |-> ev.e] /\ cnext' = ev.s
  /\ UNCHANGED <<file, delivered, perm>>

ReadsOK(ev, lo, hi) ==
  LET idx == {ev.reads[i][1] : i \in 1..Len(ev.reads)} IN
  \* every Read returns a line of the data file, byte for byte (or length+digest for the huge-line file)
  /\ Expect(\A i \in 1..Len(ev.reads) : ev.reads[i][1] \in 0..(N - 1) /\ file[ev.reads[i][1] + 1] = ev.reads[i][2], ev, "C20/line-not-delivered-verbatim",
            [first |-> CHOOSE i \in 1..(Len(ev.reads) + 1) : i = Len(ev.reads) + 1 \/ ~(ev.reads[i][1] \in 0..(N - 1) /\ file[ev.reads[i][1] + 1] = ev.reads[i][2])])
  \* as many lines as the window is wide, no line twice
  /\ Expect(Len(ev.reads) = hi - lo /\ Cardinality(idx) = Len(ev.reads), ev, "C20/window-size-or-duplicate", [window |-> <<lo, hi>>, reads |-> Len(ev.reads), distinct |-> Cardinality(idx)])
  \* the shuffled view is the epoch's permutation (when it was recorded for this n and epoch)
  /\ Expect(perm = <<>> \/ idx = {perm[i + 1] : i \in lo..(hi - 1)}, ev, "C20/window-is-not-the-permutation-image", [window |-> <<lo, hi>>])

TChunk ==
  /\ IsEvent("chunk")
  /\ LET ev == Trace[l] idx == {ev.reads[i][1] : i \in 1..Len(ev.reads)} IN
       /\ Expect(ev.s = cnext /\ ev.s < ev.e /\ ev.e <= cur.e, ev, "C20/chunks-do-not-partition-the-batch", [expectedStart |-> cnext, got |-> <<ev.s, ev.e>>, batch |-> cur])
       /\ ReadsOK(ev, ev.s, ev.e)
       /\ Expect(idx \cap delivered = {}, ev, "C20/line-delivered-twice-in-epoch", [n |-> Cardinality(idx \cap delivered)])
       /\ delivered' = delivered \cup idx
       /\ cnext' = ev.e
  /\ UNCHANGED <<file, bnext, cur, perm>>

TEndEpoch ==
  /\ IsEvent("eoe")
  /\ LET ev == Trace[l] IN
       /\ Expect(bnext = N /\ cnext = cur.e, ev, "C20/batches-do-not-cover-the-file", [reached |-> bnext, n |-> N])
       /\ Expect(delivered = 0..(N - 1), ev, "C20/not-every-line-delivered-exactly-once", [delivered |-> Cardinality(delivered), n |-> N])
  /\ UNCHANGED <<file, delivered, bnext, cur, cnext, perm>>

\* arbitrary sub-range [s, e)
TSub ==
  /\ IsEvent("sub")
  /\ ReadsOK(Trace[l], Trace[l].s, Trace[l].e)
  /\ UNCHANGED <<file, delivered, bnext, cur, cnext, perm>>

\* the epoch's shuffle for n lines is a permutation of 0..n-1
TPerm ==
  /\ IsEvent("perm")
  /\ LET ev == Trace[l] IN
       /\ Expect(Len(ev.p) = ev.n /\ ToSet(ev.p) = 0..(ev.n - 1), ev, "C20/shuffle-is-not-a-permutation",
                 [n |-> ev.n, epoch |-> ev.epoch, distinct |-> Cardinality(ToSet(ev.p)), outOfRange |-> Cardinality({x \in ToSet(ev.p) : x < 0 \/ x >= ev.n})])
       /\ perm' = IF ev.keep THEN ev.p ELSE <<>>
  /\ UNCHANGED <<file, delivered, bnext, cur, cnext>>

\* a window of a huge permutation: in range and injective on the window
TPermWin ==
  /\ IsEvent("permwin")
  /\ LET ev == Trace[l] IN
       Expect(Cardinality(ToSet(ev.ys)) = Len(ev.ys) /\ \A i \in 1..Len(ev.ys) : ev.ys[i] >= 0 /\ ev.ys[i] < ev.n, ev, "C20/shuffle-is-not-a-permutation",
              [n |-> ev.n, epoch |-> ev.epoch, from |-> ev.from])
  /\ UNCHANGED <<file, delivered, bnext, cur, cnext, perm>>

BatchLines == 100000     \* tuning.NumLinesInBatch
BatchChunks == 16         \* tuning.NumChunksInBatch
\* how Batches / Chunks cut n lines: one row per batch <<s, e, c0s, c0e, c1s, c1e, ...>>
TPlan ==
  /\ IsEvent("plan")
  /\ LET ev == Trace[l]
         bs == [i \in 1..Len(ev.plan) |-> [s |-> ev.plan[i][1], e |-> ev.plan[i][2]]]
         cs(i) == [j \in 1..((Len(ev.plan[i]) - 2) \div 2) |-> [s |-> ev.plan[i][2 * j + 1], e |-> ev.plan[i][2 * j + 2]]]
     IN /\ Expect(Len(bs) > 200 \/ Partitions(bs, 0, ev.n), ev, "C20/batches-do-not-partition", [n |-> ev.n, batches |-> bs])
        /\ \A i \in 1..Len(bs) : Expect(Partitions(cs(i), bs[i].s, bs[i].e), ev, "C20/chunks-do-not-partition-the-batch", [n |-> ev.n, batch |-> bs[i], chunks |-> cs(i)])
        \* and they are the cuts of the model (batch and chunk sizes of tuning.go)
        /\ Expect(Len(bs) > 200 \/ (bs = Batches(ev.n, BatchLines) /\ \A i \in 1..Len(bs) : cs(i) = Chunks(bs[i], BatchLines, BatchChunks)), ev, "X/plan-differs-from-model", [n |-> ev.n])
  /\ UNCHANGED <<file, delivered, bnext, cur, cnext, perm>>

(****************************** C19 ******************************)
\* float evaluation with the shipped coefficients vs the engine's integer evaluation, white-relative,
\* both scaled by 1000: |f - i| < 2250
TEvalPair ==
  /\ IsEvent("evalpair")
  /\ LET ev == Trace[l]
         want == 1000 * (IF ev.stm = 0 THEN ev.i ELSE -ev.i)
         d == IF ev.f1000 > want THEN ev.f1000 - want ELSE want - ev.f1000
     IN Expect(d < 2250, ev, "C19/float-and-integer-evaluation-differ", [fen |-> ev.fen, float1000 |-> ev.f1000, int |-> ev.i, stm |-> ev.stm])
  /\ UNCHANGED <<file, delivered, bnext, cur, cnext, perm>>

\* the flat vector is the dense packing of the selected groups in struct order: index k of the vector, the
\* coefficient SetVector writes for k, the one ToVector reads at k and the one TunedParams yields as k coincide
TVec ==
  /\ IsEvent("vec")
  /\ LET ev == Trace[l]
         offs == Offsets(ev.layout, 1, 0)
         targets == ToSet(ev.targets)
     IN /\ Expect(ev.len = VectorLen(ev.layout, targets), ev, "C19/vector-length", [targets |-> ev.targets, got |-> ev.len, want |-> VectorLen(ev.layout, targets)])
        /\ Expect(ev.ntuned = ev.len, ev, "C19/tuned-params-count", [targets |-> ev.targets, got |-> ev.ntuned, want |-> ev.len])
        /\ \A j \in 1..Len(ev.probes) :
             LET pr == ev.probes[j] want == PathOf(ev.layout, offs, targets, pr.k, 1) IN
             Expect(pr.set = want /\ pr.get = pr.k /\ pr.tuned = want, ev, "C19/vector-index-addresses-different-coefficients",
                    [targets |-> ev.targets, k |-> pr.k, expectedPath |-> want, setVectorWrote |-> pr.set, toVectorReadAt |-> pr.get, tunedParamsPointsAt |-> pr.tuned])
  /\ UNCHANGED <<file, delivered, bnext, cur, cnext, perm>>

TPanic == /\ IsEvent("panic") /\ MM(Trace[l], IF Trace[l].engine THEN "PANIC/engine" ELSE "INFRA/recorder-panic", [msg |-> Trace[l].msg])
          /\ UNCHANGED <<file, delivered, bnext, cur, cnext, perm>>

TInit == l = 1 /\ file = <<>> /\ delivered = {} /\ bnext = 0 /\ cur = [s |-> 0, e |-> 0] /\ cnext = 0 /\ perm = <<>>
TNext == TPlan \/ TFile \/ TCount \/ TEpoch \/ TBatch \/ TChunk \/ TEndEpoch \/ TSub \/ TPerm \/ TPermWin \/ TEvalPair \/ TVec \/ TPanic
Done == PrintT("DONE " \o ToString(TLCGet("stats").diameter - 1) \o " " \o ToString(Len(Trace)))
=============================================================================
