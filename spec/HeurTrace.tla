----------------------------- MODULE HeurTrace -----------------------------
(***************************************************************************)
(* Trace validation for the move-ordering and evaluation helpers:          *)
(*   pick  (C16) the staged picker iterated to exhaustion                  *)
(*   grav  (C16) one history update: (stored value, bonus, new value)      *)
(*   see   (C18) heur.SEE answers for a sweep of thresholds                *)
(*   eval  (C17) static evaluation of a position and of variants           *)
(* Each event is judged against Chess.tla (pseudo-legal set, mirror),      *)
(* History.tla (the gravity step and its band) and See.tla.                *)
(***************************************************************************)
EXTENDS See, History, Json, IOUtils

Trace == ndJsonDeserialize(IOEnv.TRACE)
VARIABLES l, cur, base
tvars == <<l, cur, base>>

MM(ev, rule, detail) == PrintT("MM " \o ToJson([l |-> l, t |-> ev.t, rule |-> rule, class |-> "", detail |-> detail]))
Expect(c, ev, rule, detail) == IF c THEN TRUE ELSE MM(ev, rule, detail)
IsEvent(e) == l <= Len(Trace) /\ Trace[l].ev = e /\ l' = l + 1
Has(ev, f) == f \in DOMAIN ev
ToSet(q) == {q[i] : i \in 1..Len(q)}

(***************************** picker (C16) *****************************)
IsNoisy(p, m) == p.bd[CapSq(p, m)] # 0 \/ m.pr # 0
GoodBand(w) == w >= Captures /\ w < Captures + CaptureRange
BadBand(w) == w >= -Captures - CaptureRange /\ w < -Captures

TPick ==
  /\ IsEvent("pick")
  /\ LET ev == Trace[l]
         p == IF Has(ev, "pos") THEN PosOfJson(ev.pos) ELSE cur
         want == {EncM(m) : m \in Pseudo(p)}
         ms == [i \in 1..Len(ev.y) |-> ev.y[i].m]
         hmOK == ev.hm \in want
     IN /\ Expect(~Has(ev, "pos") \/ (FenOf(p) = ev.fen /\ Valid(p)), ev, "INFRA/picker-position", [fen |-> IF Has(ev, "fen") THEN ev.fen ELSE ""])
        /\ Expect(ToSet(ms) = want /\ Len(ms) = Cardinality(want), ev, "C16/not-a-permutation-of-pseudo-legal-moves",
                  [fen |-> FenOf(p), hm |-> ev.hm, hist |-> ev.hist, missing |-> want \ ToSet(ms), extra |-> ToSet(ms) \ want, yielded |-> Len(ms), expected |-> Cardinality(want)])
        /\ Expect(~hmOK \/ (Len(ms) >= 1 /\ ms[1] = ev.hm), ev, "C16/hash-move-not-first", [fen |-> FenOf(p), hm |-> ev.hm, first |-> IF Len(ms) >= 1 THEN ms[1] ELSE 0])
        /\ \A i \in 1..Len(ev.y) :
             LET m == DecM(ev.y[i].m) w == ev.y[i].w IN
             IF ev.y[i].m \notin want THEN TRUE
             ELSE IF i = 1 /\ hmOK THEN Expect(w = HashMoveW, ev, "C16/hash-move-weight", [w |-> w])
             ELSE IF IsNoisy(p, m) THEN Expect(GoodBand(w) \/ BadBand(w), ev, "C16/capture-weight-outside-its-bands", [fen |-> FenOf(p), m |-> ev.y[i].m, w |-> w])
             ELSE Expect(w >= -QuietBand /\ w <= QuietBand, ev, "C16/quiet-weight-outside-its-band", [fen |-> FenOf(p), m |-> ev.y[i].m, w |-> w, hist |-> ev.hist])
        /\ cur' = p
  /\ UNCHANGED base

(***************************** gravity (C16) *****************************)
TGrav ==
  /\ IsEvent("grav")
  /\ LET ev == Trace[l] IN
       /\ Expect(ev.h1 = Step(0, ev.h), ev, "C16/history-step", [tab |-> ev.tab, from |-> 0, bonus |-> ev.h, got |-> ev.h1, want |-> Step(0, ev.h)])
       /\ Expect(ev.h2 = Step(ev.h1, ev.b), ev, "C16/history-step", [tab |-> ev.tab, from |-> ev.h1, bonus |-> ev.b, got |-> ev.h2, want |-> Step(ev.h1, ev.b)])
       /\ Expect(InBand(ev.h2) /\ InBand(ev.h1), ev, "C16/history-value-outside-band", [tab |-> ev.tab, from |-> ev.h1, bonus |-> ev.b, got |-> ev.h2])
  /\ UNCHANGED <<cur, base>>

(******************************* SEE (C18) *******************************)
\* the answers for all thresholds at once must be those of ONE achievable balance
Fits(v, th, ans) == \A i \in 1..Len(th) : (ans[i] = 1) = (v >= th[i])
Monotone(th, ans) == \A i, j \in 1..Len(th) : th[i] <= th[j] /\ ans[j] = 1 => ans[i] = 1
TSee ==
  /\ IsEvent("see")
  /\ LET ev == Trace[l] p == PosOfJson(ev.pos) IN
       /\ Expect(FenOf(p) = ev.fen /\ Valid(p), ev, "INFRA/see-position", [fen |-> ev.fen])
       /\ \A k \in 1..Len(ev.rows) :
            LET row == ev.rows[k] m == DecM(row.m) IN
            /\ Expect(m \in Legal(p), ev, "INFRA/see-move-not-legal", [m |-> row.m, fen |-> ev.fen])
            /\ Expect(Monotone(ev.th, row.ans), ev, "C18/not-monotone-in-threshold", [fen |-> ev.fen, m |-> row.m])
            /\ IF m \in Legal(p)
               THEN LET bal == Balances(p, m) IN
                    Expect(\E v \in bal : Fits(v, ev.th, row.ans), ev, "C18/answers-match-no-achievable-balance",
                           [fen |-> ev.fen, m |-> row.m, balances |-> bal,
                            implied |-> {ev.th[i] : i \in {j \in 1..Len(ev.th) : row.ans[j] = 1}}])
               ELSE TRUE
  /\ UNCHANGED <<cur, base>>

(****************************** eval (C17) ******************************)
\* what the evaluation may depend on: placement, side to move, halfmove clock
EvalKey(p) == <<p.bd, p.stm, p.hm>>
TEval ==
  /\ IsEvent("eval")
  /\ LET ev == Trace[l] p == PosOfJson(ev.pos) IN
       IF ev.via = "base"
       THEN /\ Expect(FenOf(p) = ev.fen /\ Valid(p), ev, "INFRA/eval-position", [fen |-> ev.fen])
            /\ base' = [p |-> p, val |-> ev.val]
       ELSE /\ base' = base
            \* the specification re-establishes the claimed relation before using it
            /\ IF ev.via = "mirror"
               THEN /\ Expect(p = Mirror(base.p) /\ Valid(p), ev, "INFRA/not-the-mirror", [fen |-> ev.fen])
                    /\ Expect(ev.val = base.val, ev, "C17/mirror-image-evaluates-differently", [fen |-> FenOf(base.p), mirror |-> ev.fen, val |-> base.val, mirrorVal |-> ev.val])
               ELSE /\ Expect(EvalKey(p) = EvalKey(base.p), ev, "INFRA/variant-differs-in-position", [fen |-> ev.fen, via |-> ev.via])
                    /\ Expect(ev.val = base.val, ev, "C17/depends-on-non-positional-state", [fen |-> FenOf(base.p), variant |-> ev.fen, via |-> ev.via, val |-> base.val, variantVal |-> ev.val])
  /\ UNCHANGED cur

TInit == l = 1 /\ cur = StartPos /\ base = [p |-> StartPos, val |-> 0]
TNext == TPick \/ TGrav \/ TSee \/ TEval
Done == PrintT("DONE " \o ToString(TLCGet("stats").diameter - 1) \o " " \o ToString(Len(Trace)))
=============================================================================
