------------------------------- MODULE PVTrace -------------------------------
(* Recorded operation sequences on the real pv buffer (through the verif export) against the abstract
   semantics of PV.tla: one line per ply; setNull empties it; insert prepends a move to the child's line.
   Also the segment index function over all plies, and chess.Score's info-line text over all 16-bit scores. *)
EXTENDS Integers, Sequences, Json, IOUtils, TLC

Trace == ndJsonDeserialize(IOEnv.TRACE)
MaxPlies == 64
Inf == 10000
VARIABLES l, pvs
MM(ev, rule, detail) == PrintT("MM " \o ToJson([l |-> l, t |-> ev.t, rule |-> rule, class |-> "", detail |-> detail]))
Expect(c, ev, rule, detail) == IF c THEN TRUE ELSE MM(ev, rule, detail)
Is(e) == l <= Len(Trace) /\ Trace[l].ev = e /\ l' = l + 1
BufIx(p) == p * MaxPlies - (p * (p - 1)) \div 2

TNew == Is("pvnew") /\ pvs' = [p \in 0..(MaxPlies - 1) |-> <<>>]
TNull == /\ Is("pvnull") /\ pvs' = [pvs EXCEPT ![Trace[l].ply] = <<>>]
         /\ Expect(Trace[l].active = pvs'[0], Trace[l], "C07/pv-buffer", [op |-> "setNull", ply |-> Trace[l].ply, got |-> Trace[l].active, want |-> pvs'[0]])
TInsert == /\ Is("pvinsert")
           /\ pvs' = [pvs EXCEPT ![Trace[l].ply] = <<Trace[l].m>> \o pvs[Trace[l].ply + 1]]
           /\ Expect(Trace[l].active = pvs'[0], Trace[l], "C07/pv-buffer", [op |-> "insert", ply |-> Trace[l].ply, got |-> Trace[l].active, want |-> pvs'[0]])
TBufIx == /\ Is("bufix")
          /\ Expect(\A p \in 0..(MaxPlies - 1) : Trace[l].ix[p + 1] = BufIx(p), Trace[l], "C07/pv-buffer-index", [got |-> Trace[l].ix])
          /\ Expect(Trace[l].len = (MaxPlies * (MaxPlies + 1)) \div 2, Trace[l], "C07/pv-buffer-index", [len |-> Trace[l].len])
          /\ UNCHANGED pvs

\* the text of a score in an info line (chess.Score.String): "mate N" inside the mate range, "cp N" otherwise
AbsI(x) == IF x < 0 THEN -x ELSE x
ScoreText(s) == IF s = -11000 THEN "Inv"
                ELSE IF AbsI(s) >= Inf - MaxPlies
                     THEN "mate " \o (IF s < 0 THEN "-" ELSE "") \o ToString((Inf - AbsI(s) + 1) \div 2)
                     ELSE "cp " \o ToString(s)
TScores == /\ Is("scores")
           /\ \A k \in 1..Len(Trace[l].texts) :
                LET s == Trace[l].from + k - 1 IN
                \* distances beyond the mate score itself are not produced by the search: only |s| <= Inf is judged
                IF AbsI(s) > Inf /\ s # -11000 THEN TRUE
                ELSE Expect(Trace[l].texts[k] = ScoreText(s), Trace[l], "X/score-text", [score |-> s, got |-> Trace[l].texts[k], want |-> ScoreText(s)])
           /\ UNCHANGED pvs

TInit == l = 1 /\ pvs = [p \in 0..(MaxPlies - 1) |-> <<>>]
TNext == TNew \/ TNull \/ TInsert \/ TBufIx \/ TScores
Done == PrintT("DONE " \o ToString(TLCGet("stats").diameter - 1) \o " " \o ToString(Len(Trace)))
=============================================================================
