-------------------------- MODULE TunerSchedTrace --------------------------
(***************************************************************************)
(* Binds the server side of TunerSched.tla to tools/tuner/server/server.go *)
(* (epdProcess, compiled unmodified): the trace is the update stream the   *)
(* server itself sends to its UI - one goroutine, program order - while    *)
(* mock workers are slow, lose answers, answer twice, answer in a later    *)
(* batch or with ids the server never issued.  The server is deterministic *)
(* given what it receives and the clock, so the trace spec keeps its own   *)
(* tracker and judges every step:                                          *)
(*   job      - tracker.schedule(): first jobless chunk, else the not yet   *)
(*              completed chunk with the earliest (latest) deadline, and   *)
(*              only once that deadline has passed (Schedule/Issue)        *)
(*   queue    - the job handed out is the chunk's range in this epoch      *)
(*   recv     - tracker.match() against the CURRENT batch only (Recv)      *)
(*   result   - a gradient is added exactly when the matched chunk was not *)
(*              completed yet                                              *)
(*   batchtime- the step is taken when, and as soon as, every chunk is     *)
(*              completed (Apply)                                          *)
(* Rules are named S/... : they extend C20 beyond its statement and are    *)
(* reported as an extension, never as a violation of a listed property.    *)
(***************************************************************************)
EXTENDS Tuner, Json, IOUtils, TLC

Trace == ndJsonDeserialize(IOEnv.TRACE)
BatchLines == 100000
BatchChunks == 16
InitTTL == 600000000        \* JobTTLInit, in microseconds

VARIABLES l, n, epoch, bi, closed, tr, expect, lastChunk, matched
tvars == <<l, n, epoch, bi, closed, tr, expect, lastChunk, matched>>

MM(ev, rule, detail) == PrintT("MM " \o ToJson([l |-> l, t |-> ev.t, rule |-> rule, class |-> "", detail |-> detail]))
Expect(c, ev, rule, detail) == IF c THEN TRUE ELSE MM(ev, rule, detail)
IsEvent(e) == l <= Len(Trace) /\ Trace[l].ev = e /\ l' = l + 1

AllBatches == Batches(n, BatchLines)
CurChunks == IF bi >= 1 /\ bi <= Len(AllBatches) THEN Chunks(AllBatches[bi], BatchLines, BatchChunks) ELSE <<>>
FreshTr(k) == [c \in 1..k |-> [completed |-> FALSE, jobs |-> <<>>]]
AllCompleted == \A c \in 1..Len(tr) : tr[c].completed
Max(S) == CHOOSE x \in S : \A y \in S : y <= x
Deadline(c) == Max({tr[c].jobs[j].start + tr[c].jobs[j].ttl : j \in 1..Len(tr[c].jobs)})
Jobless == {c \in 1..Len(tr) : tr[c].jobs = <<>>}
Open == {c \in 1..Len(tr) : ~tr[c].completed}
NoExpect == [kind |-> "any", c |-> 0, k |-> 0]

\* nothing may come between a matched first answer and its `result`, nor between `job` and `queue`
Free(ev) == Expect(expect.kind = "any", ev, "S/step-out-of-sequence", [expected |-> expect, got |-> ev.ev])

TCount == /\ IsEvent("count") /\ n' = Trace[l].n
          /\ UNCHANGED <<epoch, bi, closed, tr, expect, lastChunk, matched>>

TEpoch ==
  /\ IsEvent("epoch")
  /\ LET ev == Trace[l] IN
       /\ Free(ev)
       /\ Expect(ev.epoch = epoch + 1, ev, "S/epoch-number", [got |-> ev.epoch, after |-> epoch])
       /\ Expect(epoch = 0 \/ (bi = Len(AllBatches) /\ closed), ev, "S/epoch-ended-before-its-batches", [batch |-> bi, of |-> Len(AllBatches), closed |-> closed])
       /\ epoch' = epoch + 1 /\ bi' = 0 /\ closed' = TRUE /\ tr' = <<>>
  /\ UNCHANGED <<n, expect, lastChunk, matched>>

TBatch ==
  /\ IsEvent("batch")
  /\ LET ev == Trace[l] nb == bi + 1 IN
       /\ Free(ev)
       /\ Expect(closed, ev, "S/batch-started-before-the-previous-step", [batch |-> bi])
       /\ Expect(nb <= Len(AllBatches) /\ AllBatches[nb] = [s |-> ev.s, e |-> ev.e], ev, "S/batch-range", [index |-> nb, got |-> <<ev.s, ev.e>>, n |-> n])
       /\ bi' = nb /\ closed' = FALSE
       /\ tr' = FreshTr(IF nb <= Len(AllBatches) THEN Len(Chunks(AllBatches[nb], BatchLines, BatchChunks)) ELSE 0)
  /\ UNCHANGED <<n, epoch, expect, lastChunk, matched>>

TJob ==
  /\ IsEvent("job")
  /\ LET ev == Trace[l] c == ev.chunk + 1 IN
       /\ Free(ev)
       /\ Expect(~closed /\ ~AllCompleted, ev, "S/job-issued-for-a-completed-batch", [batch |-> bi])
       /\ IF c \in 1..Len(tr)
          THEN /\ Expect(ev.jobix = Len(tr[c].jobs), ev, "S/job-index", [chunk |-> ev.chunk, got |-> ev.jobix, jobsSoFar |-> Len(tr[c].jobs)])
               /\ IF Jobless # {}
                  THEN Expect(c = CHOOSE x \in Jobless : \A y \in Jobless : x <= y, ev, "S/jobless-chunks-first", [got |-> ev.chunk, jobless |-> Jobless])
                  ELSE /\ Expect(~tr[c].completed, ev, "S/job-for-a-completed-chunk", [chunk |-> ev.chunk])
                       \* re-issue only after the chunk's latest deadline has passed (1 us of rounding allowed) ...
                       /\ Expect(Deadline(c) <= ev.start + 1, ev, "S/reissued-before-the-deadline", [chunk |-> ev.chunk, deadline |-> Deadline(c), now |-> ev.start])
                       \* ... and the most overdue chunk first
                       /\ Expect(\A d \in Open : Deadline(c) <= Deadline(d) + 1, ev, "S/not-the-earliest-deadline", [chunk |-> ev.chunk, deadline |-> Deadline(c)])
               \* until a first answer was matched the time-to-live is the initial one
               /\ Expect(matched > 0 \/ ev.ttl = InitTTL, ev, "S/initial-ttl", [ttl |-> ev.ttl])
               /\ Expect(ev.ttl >= 0, ev, "S/negative-ttl", [ttl |-> ev.ttl])
               /\ tr' = [tr EXCEPT ![c].jobs = Append(@, [jid |-> -2, start |-> ev.start, ttl |-> ev.ttl])]
               /\ expect' = [kind |-> "queue", c |-> c, k |-> Len(tr[c].jobs) + 1]
          ELSE MM(ev, "S/no-such-chunk", [chunk |-> ev.chunk, chunks |-> Len(tr)]) /\ UNCHANGED <<tr, expect>>
       /\ lastChunk' = c
  /\ UNCHANGED <<n, epoch, bi, closed, matched>>

TQueue ==
  /\ IsEvent("queue")
  /\ LET ev == Trace[l] IN
       /\ Expect(expect.kind = "queue", ev, "S/step-out-of-sequence", [expected |-> expect, got |-> "queue"])
       /\ IF expect.kind = "queue"
          THEN /\ tr' = [tr EXCEPT ![expect.c].jobs[expect.k].jid = ev.jid]
               \* what a worker received under this id: this epoch, exactly the chunk's range
               /\ IF "job" \in DOMAIN ev
                  THEN Expect(ev.job.epoch = epoch /\ [s |-> ev.job.s, e |-> ev.job.e] = CurChunks[expect.c], ev, "S/job-is-not-the-chunk",
                              [job |-> ev.job, epoch |-> epoch, chunk |-> CurChunks[expect.c]])
                  ELSE TRUE
          ELSE UNCHANGED tr
       /\ expect' = NoExpect
  /\ UNCHANGED <<n, epoch, bi, closed, lastChunk, matched>>

TRecv ==
  /\ IsEvent("recv")
  /\ LET ev == Trace[l]
         hits == {c \in 1..Len(tr) : \E k \in 1..Len(tr[c].jobs) : tr[c].jobs[k].jid = ev.jid}
     IN
       /\ Free(ev)
       /\ IF ev.jid >= 0 /\ hits # {} /\ ~closed
          THEN LET c == CHOOSE x \in hits : TRUE
                   k == CHOOSE j \in 1..Len(tr[c].jobs) : tr[c].jobs[j].jid = ev.jid
               IN /\ matched' = matched + 1
                  /\ IF tr[c].completed
                     THEN expect' = NoExpect /\ UNCHANGED tr       \* a second answer for the chunk: ignored
                     ELSE /\ tr' = [tr EXCEPT ![c].completed = TRUE]
                          /\ expect' = [kind |-> "result", c |-> c, k |-> k]
          ELSE UNCHANGED <<matched, tr>> /\ expect' = NoExpect      \* an id of another batch, or one never issued: dropped
  /\ UNCHANGED <<n, epoch, bi, closed, lastChunk>>

TResult ==
  /\ IsEvent("result")
  /\ LET ev == Trace[l] IN
       /\ Expect(expect.kind = "result" /\ expect.c = ev.chunk + 1 /\ expect.k = ev.jobix + 1, ev, "S/gradient-counted-not-exactly-once",
                 [expected |-> expect, gotChunk |-> ev.chunk, gotJob |-> ev.jobix])
       /\ expect' = NoExpect
  /\ UNCHANGED <<n, epoch, bi, closed, tr, lastChunk, matched>>

TBatchTime ==
  /\ IsEvent("batchtime")
  /\ LET ev == Trace[l] IN
       \* a first answer that was matched must have been counted before the step
       /\ Expect(expect.kind # "result", ev, "S/gradient-counted-not-exactly-once", [expected |-> expect, got |-> "batchtime"])
       /\ Expect(~closed /\ AllCompleted, ev, "S/step-taken-with-incomplete-batch", [open |-> Open, batch |-> bi])
       /\ closed' = TRUE /\ expect' = NoExpect
  /\ UNCHANGED <<n, epoch, bi, tr, lastChunk, matched>>

\* once every chunk is completed nothing but the step may follow
Prompt == l > Len(Trace) \/ closed \/ Len(tr) = 0 \/ ~AllCompleted \/ expect.kind = "result" \/ Trace[l].ev \in {"batchtime"}

TOther ==
  /\ l <= Len(Trace) /\ Trace[l].ev \in {"mse", "lr"} /\ l' = l + 1
  /\ UNCHANGED <<n, epoch, bi, closed, tr, expect, lastChunk, matched>>

\* the recorder gave up: a minute without a step although a worker keeps answering
TStall ==
  /\ IsEvent("stall") /\ MM(Trace[l], "S/server-wedged", [batch |-> bi, open |-> Open])
  /\ UNCHANGED <<n, epoch, bi, closed, tr, expect, lastChunk, matched>>

TInit == l = 1 /\ n = 0 /\ epoch = 0 /\ bi = 0 /\ closed = TRUE /\ tr = <<>> /\ expect = NoExpect /\ lastChunk = 0 /\ matched = 0
TNext == /\ (TCount \/ TEpoch \/ TBatch \/ TJob \/ TQueue \/ TRecv \/ TResult \/ TBatchTime \/ TOther \/ TStall)
         /\ IF Prompt THEN TRUE ELSE MM(Trace[l], "S/step-not-taken-when-the-batch-was-complete", [next |-> Trace[l].ev])
Done == PrintT("DONE " \o ToString(TLCGet("stats").diameter - 1) \o " " \o ToString(Len(Trace)))
=============================================================================
