----------------------------- MODULE EnumTrace -----------------------------
(***************************************************************************)
(* Exhaustive small-material classes (C01, C09): for EVERY placement of    *)
(* white king, black king and one further piece X (either colour), both    *)
(* sides to move, the engine's playable-move count, a checksum of the move *)
(* encodings and its direct checkmate / stalemate answer, dumped by index, *)
(* are compared with Legal and Status of Chess.tla.  TLC decides which     *)
(* indices denote valid positions (the others are skipped).                *)
(* index = wk + 64*bk + 4096*x + 262144*stm                                *)
(***************************************************************************)
EXTENDS Chess, Json, IOUtils, FiniteSetsExt

Trace == ndJsonDeserialize(IOEnv.TRACE)
VARIABLE l

PosOfIdx(i, pc) ==
  LET wk == i % 64 bk == (i \div 64) % 64 x == (i \div 4096) % 64 s == i \div 262144
  IN [bd |-> [q \in Sq |-> IF q = wk THEN 6 ELSE IF q = bk THEN 14 ELSE IF q = x THEN pc ELSE 0],
      stm |-> s, cr |-> 0, ep |-> -1, hm |-> 0, fm |-> 1]
Distinct(i) == LET wk == i % 64 bk == (i \div 64) % 64 x == (i \div 4096) % 64 IN wk # bk /\ wk # x /\ bk # x

MM(i, ev, rule, detail) == PrintT("MM " \o ToJson([l |-> l, t |-> ev.t, rule |-> rule, class |-> "", detail |-> detail]))

JudgeIdx(ev, k) ==
  LET i == ev.from + k - 1 IN
  IF ~Distinct(i) THEN TRUE
  ELSE LET p == PosOfIdx(i, ev.x) IN
       IF ~Valid(p) THEN TRUE
       ELSE LET lg == Legal(p)
                wantSt == IF lg # {} THEN 0 ELSE IF InCheck(p.bd, p.stm) THEN 1 ELSE 2
            IN /\ IF ev.cnt[k] = Cardinality(lg) /\ ev.sum[k] = SumSet({EncM(m) : m \in lg}) THEN TRUE
                  ELSE MM(i, ev, "C01/small-material-legal-set", [fen |-> FenOf(p), index |-> i, count |-> ev.cnt[k], want |-> Cardinality(lg)])
               /\ IF ev.st[k] = wantSt THEN TRUE
                  ELSE MM(i, ev, IF InCheck(p.bd, p.stm) THEN "C09/checkmate" ELSE "C09/stalemate", [fen |-> FenOf(p), index |-> i, got |-> ev.st[k], want |-> wantSt])

TInit == l = 1
TNext == /\ l <= Len(Trace)
         /\ \A k \in 1..Len(Trace[l].cnt) : JudgeIdx(Trace[l], k)
         /\ l' = l + 1
\* how many valid positions were judged (for the evidence)
ValidIn(ev) == Cardinality({k \in 1..Len(ev.cnt) : Distinct(ev.from + k - 1) /\ Valid(PosOfIdx(ev.from + k - 1, ev.x))})
Done == PrintT("DONE " \o ToString(TLCGet("stats").diameter - 1) \o " " \o ToString(Len(Trace)))
=============================================================================
