----------------------------- MODULE HistoryMC -----------------------------
(* Exhaustive evaluation of History!OneStepBound, sharded by the stored value:
   shard SHARD of NSHARDS takes the rows h with (h + 1024) % NSHARDS = SHARD; STRIDE > 1 thins the rows
   (quick tier) but always keeps the band edges and the neighbourhood of zero. *)
EXTENDS History, Sequences, FiniteSets, IOUtils, TLC
VARIABLE done
Shard == atoi(IOEnv.SHARD)
NShards == atoi(IOEnv.NSHARDS)
Stride == atoi(IOEnv.STRIDE)
Rows == {h \in (-MaxHistory)..MaxHistory :
           /\ (h + MaxHistory) % NShards = Shard
           /\ (((h + MaxHistory) \div NShards) % Stride = 0 \/ AbsI(h) >= MaxHistory - 4 \/ AbsI(h) <= 2)}
HInit == done = FALSE
HNext == /\ ~done /\ done' = TRUE
         /\ Assert(OneStepBoundOn(Rows), "OneStepBound violated")
         /\ Assert(Saturates /\ LayoutOK, "layout")
         /\ PrintT("PAIRS " \o ToString(Cardinality(Rows) * (2 * MaxHistory + 1)))
HInv == TRUE
=============================================================================
