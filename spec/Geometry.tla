---------------------------- MODULE Geometry ----------------------------
(***************************************************************************)
(* Board geometry of chess by coordinate arithmetic only: squares, rays,   *)
(* leaper patterns, pawn patterns, "between", and the relevant-occupancy   *)
(* masks of the magic-bitboard scheme.  Nothing in here is taken from the  *)
(* engine's tables; it is the independent oracle for C12 and the basis of  *)
(* Chess.tla.                                                              *)
(*                                                                         *)
(* Squares are 0..63, a1 = 0, h1 = 7, a8 = 56, h8 = 63 (the engine's       *)
(* numbering).  Colours: 0 = white, 1 = black.                             *)
(***************************************************************************)
EXTENDS Integers, Sequences, FiniteSets

Sq == 0..63
File(s) == s % 8
Rank(s) == s \div 8
Abs(x) == IF x < 0 THEN -x ELSE x
SqOf(f, r) == 8 * r + f

\* directions 1..4 are the rook directions (E, W, N, S), 5..8 the bishop directions
DF == <<1, -1, 0, 0, 1, 1, -1, -1>>
DR == <<0, 0, 1, -1, 1, -1, 1, -1>>
RookDirs == 1..4
BishopDirs == 5..8

RayLen(s, d) ==
  LET f == File(s) r == Rank(s)
      nf == IF DF[d] = 1 THEN 7 - f ELSE IF DF[d] = -1 THEN f ELSE 7
      nr == IF DR[d] = 1 THEN 7 - r ELSE IF DR[d] = -1 THEN r ELSE 7
  IN IF nf < nr THEN nf ELSE nr

\* RayT[s][d] is the sequence of squares met when walking from s in direction d
RayT == [s \in Sq |-> [d \in 1..8 |-> [i \in 1..RayLen(s, d) |-> s + i * (DF[d] + 8 * DR[d])]]]

KnightT == [s \in Sq |-> {t \in Sq : {Abs(File(s) - File(t)), Abs(Rank(s) - Rank(t))} = {1, 2}}]
KingT == [s \in Sq |-> {t \in Sq : t # s /\ Abs(File(s) - File(t)) <= 1 /\ Abs(Rank(s) - Rank(t)) <= 1}]

\* squares attacked by a pawn of colour c standing on s
PawnAttT == [c \in 0..1 |-> [s \in Sq |->
   {t \in Sq : Abs(File(s) - File(t)) = 1 /\ Rank(t) = Rank(s) + (IF c = 0 THEN 1 ELSE -1)}]]
\* square a pawn of colour c on s is pushed to (empty set on the last rank)
PawnPushT == [c \in 0..1 |-> [s \in Sq |->
   {t \in Sq : File(t) = File(s) /\ Rank(t) = Rank(s) + (IF c = 0 THEN 1 ELSE -1)}]]

(***************************************************************************)
(* Ray walking over an occupancy given as a SET of occupied squares.       *)
(***************************************************************************)
RECURSIVE FirstOccIn(_, _, _)
FirstOccIn(occ, ray, i) ==
  IF i > Len(ray) THEN i ELSE IF ray[i] \in occ THEN i ELSE FirstOccIn(occ, ray, i + 1)

\* squares reached walking the ray up to and including the first occupied square
WalkSet(occ, s, d) ==
  LET ray == RayT[s][d]
      k == FirstOccIn(occ, ray, 1)
      n == IF k > Len(ray) THEN Len(ray) ELSE k
  IN {ray[i] : i \in 1..n}

RookAtt(s, occ) == UNION {WalkSet(occ, s, d) : d \in RookDirs}
BishopAtt(s, occ) == UNION {WalkSet(occ, s, d) : d \in BishopDirs}

\* The relevant-occupancy mask of the magic scheme: each ray without its last square.
RayMask(s, d) == LET ray == RayT[s][d] IN {ray[i] : i \in 1..(Len(ray) - 1)}
RookMask(s) == UNION {RayMask(s, d) : d \in RookDirs}
BishopMask(s) == UNION {RayMask(s, d) : d \in BishopDirs}

\* squares strictly between two aligned squares, {} if not aligned
Between(a, b) ==
  LET ds == {d \in 1..8 : \E i \in 1..Len(RayT[a][d]) : RayT[a][d][i] = b}
  IN IF ds = {} THEN {}
     ELSE LET d == CHOOSE x \in ds : TRUE
              ray == RayT[a][d]
              k == CHOOSE i \in 1..Len(ray) : ray[i] = b
          IN {ray[i] : i \in 1..(k - 1)}

(***************************************************************************)
(* Lemma (C12 "proof obligation"): the occupancy of the LAST square of a   *)
(* ray never influences the walk result.  Because a slider attack set is   *)
(* the union of independent ray walks, and a walk only reads squares of its *)
(* own ray, this is the complete "squares outside the mask never matter"   *)
(* obligation.  Checked exhaustively by TLC (GeometryLemma.cfg): every     *)
(* square, direction and subset of the ray.                                *)
(***************************************************************************)
RaySet(s, d) == {RayT[s][d][i] : i \in 1..Len(RayT[s][d])}
MaskLemmaAt(s, d) ==
  \A sub \in SUBSET RaySet(s, d) :
     WalkSet(sub, s, d) = WalkSet(sub \cap RayMask(s, d), s, d)
MaskLemma == \A s \in Sq : \A d \in 1..8 : MaskLemmaAt(s, d)
\* walks read only their own ray: adding any off-ray square changes nothing
OffRayLemma == \A s \in {0, 7, 27, 36, 56, 63, 9, 54} : \A d \in 1..8 : \A x \in Sq \ RaySet(s, d) :
     \A sub \in SUBSET RayMask(s, d) : WalkSet(sub \cup {x}, s, d) = WalkSet(sub, s, d)
=============================================================================
