----------------------------- MODULE Containers -----------------------------
(***************************************************************************)
(* move.Store (the frame-structured move buffer the picker, the search and *)
(* perft share) and stack.Stack (the bounded history stack), as state      *)
(* machines, and the validation of recorded operation sequences on the     *)
(* real containers.  The picker's "nothing else, nothing twice" (C16)      *)
(* rests on the frame discipline: a frame holds exactly the moves          *)
(* allocated since its Push, Pop gives the space back to the parent frame. *)
(***************************************************************************)
EXTENDS Integers, Sequences, Json, IOUtils, TLC

StoreSize == 2048
StackCap == 64
Trace == ndJsonDeserialize(IOEnv.TRACE)

VARIABLES l, data, frames, stk
cvars == <<l, data, frames, stk>>

FrameStart == IF frames = <<>> THEN 0 ELSE frames[Len(frames)]
Frame == SubSeq(data, FrameStart + 1, Len(data))

MM(ev, rule, detail) == PrintT("MM " \o ToJson([l |-> l, t |-> ev.t, rule |-> rule, class |-> "", detail |-> detail]))
Expect(c, ev, rule, detail) == IF c THEN TRUE ELSE MM(ev, rule, detail)
Is(e) == l <= Len(Trace) /\ Trace[l].ev = e /\ l' = l + 1
FrameOK(ev) == Expect(ev.frame = Frame', ev, "C16/move-store-frame-discipline", [op |-> ev.ev, got |-> ev.frame, want |-> Frame'])

SNew == Is("snew") /\ data' = <<>> /\ frames' = <<>> /\ stk' = <<>>
SPush == Is("spush") /\ frames' = Append(frames, Len(data)) /\ UNCHANGED <<data, stk>> /\ FrameOK(Trace[l])
SPop == /\ Is("spop")
        /\ IF frames = <<>> THEN data' = <<>> /\ frames' = <<>>
           ELSE data' = SubSeq(data, 1, frames[Len(frames)]) /\ frames' = SubSeq(frames, 1, Len(frames) - 1)
        /\ UNCHANGED stk /\ FrameOK(Trace[l])
\* Alloc resets the weight of the slot to zero; the caller may then set it (logged as the weight it wrote)
SAlloc == /\ Is("salloc")
          /\ Expect(Trace[l].panic = (Len(data) >= StoreSize), Trace[l], "C16/move-store-capacity", [len |-> Len(data)])
          /\ IF Trace[l].panic THEN UNCHANGED data ELSE data' = Append(data, <<Trace[l].m, Trace[l].w>>)
          /\ Expect(Trace[l].panic \/ Trace[l].fresh = 0, Trace[l], "C16/move-store-stale-weight", [w |-> Trace[l].fresh])
          /\ UNCHANGED <<frames, stk>>
          /\ IF "frame" \in DOMAIN Trace[l] THEN FrameOK(Trace[l]) ELSE TRUE
SClear == Is("sclear") /\ data' = <<>> /\ frames' = <<>> /\ UNCHANGED stk /\ FrameOK(Trace[l])

KPush == /\ Is("kpush")
         /\ Expect(Trace[l].panic = (Len(stk) >= StackCap), Trace[l], "C16/history-stack-capacity", [len |-> Len(stk)])
         /\ stk' = IF Trace[l].panic THEN stk ELSE Append(stk, Trace[l].v)
         /\ UNCHANGED <<data, frames>>
KPop == /\ Is("kpop")
        /\ Expect(Trace[l].panic = (stk = <<>>), Trace[l], "C16/history-stack-underflow", [len |-> Len(stk)])
        /\ stk' = IF stk = <<>> THEN stk ELSE SubSeq(stk, 1, Len(stk) - 1)
        /\ UNCHANGED <<data, frames>>
KTop == /\ Is("ktop")
        /\ LET ev == Trace[l] IN
             Expect(ev.ok = (Len(stk) > ev.n) /\ (ev.ok => ev.v = stk[Len(stk) - ev.n]), ev, "C16/history-stack-top", [n |-> ev.n, len |-> Len(stk), got |-> ev.v])
        /\ UNCHANGED <<data, frames, stk>>
KReset == Is("kreset") /\ stk' = <<>> /\ UNCHANGED <<data, frames>>

TInit == l = 1 /\ data = <<>> /\ frames = <<>> /\ stk = <<>>
TNext == SNew \/ SPush \/ SPop \/ SAlloc \/ SClear \/ KPush \/ KPop \/ KTop \/ KReset
Done == PrintT("DONE " \o ToString(TLCGet("stats").diameter - 1) \o " " \o ToString(Len(Trace)))
=============================================================================
