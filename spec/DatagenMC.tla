----------------------------- MODULE DatagenMC -----------------------------
EXTENDS Datagen
ScoresA == {-700, -300, 0, 300, 700}
CfgsA == {[Draw |-> d, DrawAfter |-> da, DrawMargin |-> 20, DrawCount |-> dc, Win |-> w, WinAfter |-> wa, WinMargin |-> 600, WinCount |-> wc] :
            d \in BOOLEAN, w \in BOOLEAN, da \in {0, 2}, wa \in {0, 1}, dc \in {1, 2}, wc \in {1, 2, 3}}
=============================================================================
