------------------------------- MODULE Picker -------------------------------
(***************************************************************************)
(* The staged move picker (picker/picker.go, C16) as a state machine:      *)
(*   pickHash -> genNoisy -> yieldGoodNoisy -> genQuiet -> yieldRest       *)
(* over an abstract position: a set of noisy and a set of quiet moves with *)
(* rank functions, and a hash-move candidate that may or may not be        *)
(* pseudo-legal.  The store is the frame of the move store: a sequence of  *)
(* [m, w]; selection swaps the best remaining entry to position ix.        *)
(*                                                                         *)
(* Checked by TLC for all small instances (PickerMC.cfg): every pseudo-    *)
(* legal move is yielded exactly once and nothing else; the hash move      *)
(* comes first iff it is pseudo-legal.  With NECESSITY = TRUE the quiet    *)
(* ranks may reach the sentinel and TLC shows the permutation property     *)
(* failing - which is why the history bound (History.tla) matters.         *)
(***************************************************************************)
EXTENDS Integers, Sequences, FiniteSets, TLC

CONSTANTS Noisy, Quiet,      \* disjoint sets of abstract pseudo-legal moves
          Junk,              \* an encoding that is not pseudo-legal in this position
          NoisyW, QuietW,    \* the weights the rankers may assign
          None
HashMoveW == 16384

VARIABLES stage, store, ix, yielded, hm, rank
pvars == <<stage, store, ix, yielded, hm, rank>>

Pseudo == Noisy \cup Quiet
Init == /\ stage = "pickHash" /\ store = <<>> /\ ix = 0 /\ yielded = <<>>
        /\ hm \in Pseudo \cup {Junk, None}
        /\ rank \in [Noisy -> NoisyW] \X [Quiet -> QuietW]    \* fixed for the lifetime of the picker

\* an arbitrary but fixed generation order
SeqOf(S) == CHOOSE q \in [1..Cardinality(S) -> S] : \A i, j \in 1..Cardinality(S) : i # j => q[i] # q[j]

Swap(q, i, j) == [q EXCEPT ![i] = q[j], ![j] = q[i]]
\* index of the first maximal entry among ix+1..Len with weight > floor, or 0
Best(q, from, floor) ==
  LET cand == {i \in from..Len(q) : q[i].w > floor} IN
  IF cand = {} THEN 0
  ELSE CHOOSE i \in cand : /\ \A j \in cand : q[j].w <= q[i].w
                           /\ \A j \in cand : q[j].w = q[i].w => i <= j
Yield(i) == /\ store' = Swap(store, ix + 1, i) /\ ix' = ix + 1
            /\ yielded' = Append(yielded, store[i].m)

PickHash ==
  /\ stage = "pickHash"
  /\ IF hm \in Pseudo
     THEN /\ store' = <<[m |-> hm, w |-> HashMoveW]>> /\ ix' = 1 /\ yielded' = <<hm>> /\ stage' = "genNoisy"
     ELSE /\ stage' = "genNoisy" /\ UNCHANGED <<store, ix, yielded>>
  /\ UNCHANGED <<hm, rank>>

GenNoisy ==
  /\ stage = "genNoisy"
  /\ LET g == SeqOf(Noisy) IN
       store' = store \o [i \in 1..Len(g) |-> [m |-> g[i], w |-> IF g[i] = hm THEN -HashMoveW ELSE rank[1][g[i]]]]
  /\ stage' = "yieldGoodNoisy"
  /\ UNCHANGED <<ix, yielded, hm, rank>>

YieldGoodNoisy ==
  /\ stage = "yieldGoodNoisy"
  /\ LET b == Best(store, ix + 1, 0) IN
       IF b # 0 THEN Yield(b) /\ UNCHANGED stage
       ELSE stage' = "genQuiet" /\ UNCHANGED <<store, ix, yielded>>
  /\ UNCHANGED <<hm, rank>>

GenQuiet ==
  /\ stage = "genQuiet"
  /\ LET g == SeqOf(Quiet) IN
       store' = store \o [i \in 1..Len(g) |-> [m |-> g[i], w |-> IF g[i] = hm THEN -HashMoveW ELSE rank[2][g[i]]]]
  /\ stage' = "yieldRest"
  /\ UNCHANGED <<ix, yielded, hm, rank>>

YieldRest ==
  /\ stage = "yieldRest"
  /\ LET b == Best(store, ix + 1, -HashMoveW) IN      \* maxim starts at -HashMove + 1, strict comparison
       IF b # 0 THEN Yield(b) /\ UNCHANGED stage
       ELSE stage' = "done" /\ UNCHANGED <<store, ix, yielded>>
  /\ UNCHANGED <<hm, rank>>

Next == PickHash \/ GenNoisy \/ YieldGoodNoisy \/ GenQuiet \/ YieldRest
Spec == Init /\ [][Next]_pvars /\ WF_pvars(Next)

ToSet(q) == {q[i] : i \in 1..Len(q)}
\* exhaustion: every pseudo-legal move exactly once and nothing else
Permutation == stage = "done" => ToSet(yielded) = Pseudo /\ Len(yielded) = Cardinality(Pseudo)
NoDuplicates == \A i, j \in 1..Len(yielded) : i # j => yielded[i] # yielded[j]
OnlyPseudo == ToSet(yielded) \subseteq Pseudo
HashFirst == (Len(yielded) >= 1 /\ hm \in Pseudo) => yielded[1] = hm
Terminates == <>(stage = "done")
=============================================================================
