------------------------------ MODULE Search ------------------------------
(***************************************************************************)
(* Control skeleton of search.Search.Go / iterativeDeepen / alphaBeta's    *)
(* abort discipline (properties C06, C07, C08).  The tree search itself is *)
(* abstract but STEPWISE: one Visit per node (node budget test, stop       *)
(* poll), Descend = MakeMove, Ascend = UndoMove (+ persistent store only   *)
(* if not aborted), so that TLC explores every abort point, every arrival  *)
(* time of the stop signal, final and non-final roots.                     *)
(*                                                                         *)
(* Abstract moves are model values; RootLegal = {} means no legal move.    *)
(***************************************************************************)
EXTENDS Integers, Sequences, FiniteSets, TLC

CONSTANTS DepthLimit,   \* last iteration depth (iterations run 0..DepthLimit)
          Hards,        \* hard node budgets to explore, -1 = none
          Softs,        \* soft node limits to explore, -1 = none
          Moves,        \* abstract moves; the root's legal set is any subset
          MaxTree,      \* bound on the nodes of one iteration (keeps the model finite)
          NoMove

VARIABLES cfg,   \* the request, fixed at Init: [hard, soft, legal, drawn]
          pc, d, ply, nodes, iterNodes, aborted, stop, best, ponder, lastPV, infos, stores, result
svars == <<cfg, pc, d, ply, nodes, iterNodes, aborted, stop, best, ponder, lastPV, infos, stores, result>>

Hard == cfg.hard
Soft == cfg.soft
RootLegal == cfg.legal
RootDrawn == cfg.drawn

RootFinal == RootDrawn \/ RootLegal = {}

Init == /\ cfg \in [hard : Hards, soft : Softs, legal : {{}, Moves}, drawn : BOOLEAN]
        /\ pc = "iter" /\ d = 0 /\ ply = 0 /\ nodes = 0 /\ iterNodes = 0 /\ aborted = FALSE /\ stop = FALSE
        /\ best = NoMove /\ ponder = NoMove /\ lastPV = <<>> /\ infos = <<>> /\ stores = <<>> /\ result = <<>>

\* the GUI / hard timer may close the stop channel at any moment
Stop == /\ ~stop /\ pc # "done" /\ stop' = TRUE
        /\ UNCHANGED <<cfg, pc, d, ply, nodes, iterNodes, aborted, best, ponder, lastPV, infos, stores, result>>

\* incrementNodes followed by the stop poll, at the entry of every node (alphaBeta / quiescence)
Visit ==
  /\ pc = "iter"
  /\ iterNodes < MaxTree
  /\ LET over == Hard # -1 /\ nodes >= Hard
         ab == aborted \/ over \/ stop
     IN /\ nodes' = IF over THEN nodes ELSE nodes + 1
        /\ aborted' = ab
        /\ pc' = IF ab THEN "unwind" ELSE "node"
  /\ iterNodes' = iterNodes + 1
  /\ UNCHANGED <<cfg, d, ply, stop, best, ponder, lastPV, infos, stores, result>>

\* inside a node: go down (MakeMove + child Visit) or finish the node
Descend ==
  /\ pc = "node" /\ ply < d + 1 /\ iterNodes < MaxTree
  /\ ply' = ply + 1 /\ pc' = "iter"
  /\ UNCHANGED <<cfg, d, nodes, iterNodes, aborted, stop, best, ponder, lastPV, infos, stores, result>>

\* a node returns normally: UndoMove in the parent, persistent stores (TT, histories) happen here and
\* only when no abort has been seen ("check abort *before* updating any of the persistent states")
Ascend ==
  /\ pc = "node"
  /\ stores' = Append(stores, nodes)
  \* the caller polls the abort condition right after the child returned (and after UndoMove)
  /\ aborted' = (aborted \/ stop)
  /\ IF ply = 0 THEN ply' = 0 /\ pc' = (IF stop THEN "abortret" ELSE "iterdone")
     ELSE ply' = ply - 1 /\ pc' = (IF stop THEN "unwind" ELSE "node")
  /\ UNCHANGED <<cfg, d, nodes, iterNodes, stop, best, ponder, lastPV, infos, result>>

\* abort: every frame returns the invalid score, undoing its move, storing nothing
Unwind ==
  /\ pc = "unwind"
  /\ IF ply = 0 THEN pc' = "abortret" /\ ply' = 0 ELSE pc' = "unwind" /\ ply' = ply - 1
  /\ UNCHANGED <<cfg, d, nodes, iterNodes, aborted, stop, best, ponder, lastPV, infos, stores, result>>

\* the principal variation an iteration can end with: empty at depth 0 (quiescence only) and on a final
\* root; otherwise it starts with a legal move (second element: any reply or none)
PVs == IF d = 0 \/ RootFinal THEN {<<>>}
       ELSE {<<m>> : m \in RootLegal} \cup {<<m, "reply">> : m \in RootLegal}

IterDone ==
  /\ pc = "iterdone"
  /\ \E pv \in PVs :
       /\ lastPV' = pv
       /\ best' = IF Len(pv) >= 1 THEN pv[1] ELSE best
       /\ ponder' = IF Len(pv) >= 2 THEN pv[2] ELSE IF Len(pv) = 1 THEN NoMove ELSE ponder
       /\ infos' = Append(infos, [depth |-> d, nodes |-> nodes, pv |-> pv, abort |-> FALSE])
       /\ LET b == IF Len(pv) >= 1 THEN pv[1] ELSE best
              softStop == b # NoMove /\ Soft > 0 /\ nodes > Soft
          IN IF softStop \/ d = DepthLimit
             THEN pc' = "done" /\ result' = <<b, IF Len(pv) >= 2 THEN pv[2] ELSE IF Len(pv) = 1 THEN NoMove ELSE ponder>> /\ d' = d /\ iterNodes' = iterNodes
             ELSE pc' = "iter" /\ d' = d + 1 /\ iterNodes' = 0 /\ result' = result
  /\ UNCHANGED <<cfg, ply, nodes, aborted, stop, stores>>

\* abort return: a final "info depth d nodes n" line; without a move so far the first legal move is played
AbortRet ==
  /\ pc = "abortret"
  /\ infos' = Append(infos, [depth |-> d, nodes |-> nodes, pv |-> <<>>, abort |-> TRUE])
  /\ IF best = NoMove
     THEN \E m \in (IF RootLegal = {} THEN {NoMove} ELSE RootLegal) : result' = <<m, NoMove>>
     ELSE result' = <<best, ponder>>
  /\ pc' = "done"
  /\ UNCHANGED <<cfg, d, ply, nodes, iterNodes, aborted, stop, best, ponder, lastPV, stores>>

Next == Stop \/ Visit \/ Descend \/ Ascend \/ Unwind \/ IterDone \/ AbortRet
Spec == Init /\ [][Next]_svars /\ WF_svars(Visit \/ Descend \/ Ascend \/ Unwind \/ IterDone \/ AbortRet)

(***************************************************************************)
(* Properties                                                              *)
(***************************************************************************)
Finished == pc = "done"
\* C06: null or legal; null only if the root is final
ResultLegal == Finished => result[1] \in RootLegal \cup {NoMove}
ResultNullOnlyIfFinal == Finished /\ result[1] = NoMove => RootFinal \/ DepthLimit = 0
\* C06: a search that runs to completion on a final root returns the null move
CompletedFinalIsNull == Finished /\ ~aborted /\ RootFinal => result[1] = NoMove
\* C06: the board is handed back untouched (every MakeMove has been undone)
BoardUntouched == Finished => ply = 0
\* C08: the hard budget is never exceeded
NeverOverBudget == Hard # -1 => nodes <= Hard
\* C07: depths strictly increase, node counts never decrease, the move played is the head of the
\* most recent non-empty reported variation
DepthsIncrease == \A i, j \in 1..Len(infos) : i < j /\ ~infos[j].abort => infos[i].depth < infos[j].depth
NodesMonotone == \A i, j \in 1..Len(infos) : i < j => infos[i].nodes <= infos[j].nodes
NonEmptyPVs == {i \in 1..Len(infos) : infos[i].pv # <<>>}
BestIsHeadOfLastPV ==
  Finished /\ NonEmptyPVs # {} =>
     LET i == CHOOSE k \in NonEmptyPVs : \A j \in NonEmptyPVs : j <= k IN result[1] = infos[i].pv[1]
\* C08: nothing is stored once the search has been aborted (the state left behind by a search that was
\* cut at N nodes is the state of the completed part)
NoStoreAfterAbort == [][aborted => stores' = stores]_svars
AbortOnlyAtVisit == aborted => pc \in {"unwind", "abortret", "done"}
Termination == <>Finished
=============================================================================
