------------------------------- MODULE UciMC -------------------------------
(* Model-checking instance of Uci.tla: all conforming GUI scripts of at most MaxCmds commands, at most MaxInfos
   info lines per search, every interleaving; safety invariants, deadlock freedom, termination under fairness. *)
EXTENDS Uci

BoundedGui == \E c \in Cmds : nSent < MaxCmds /\ GuiSend(c)
BoundedSearch == (infos < MaxInfos /\ SInfo) \/ SPollStop \/ SPollPonder \/ SFinish
Terminating == Done /\ UNCHANGED vars
Next == BoundedGui \/ GuiClose \/ DriverNext \/ BoundedSearch \/ Terminating

Fair == /\ WF_vars(GuiClose) /\ WF_vars(DriverNext) /\ WF_vars(SPollStop) /\ SF_vars(SFinish)
Spec == Init /\ [][Next]_vars /\ Fair

All == stdout \o (IF whold = <<>> THEN <<>> ELSE <<whold>>) \o out
Count(kind, k) == Cardinality({i \in 1..Len(All) : All[i] = <<kind, k>>})
NoPanic == err = ""
AtMostOneBest == \A k \in 1..goId : Count("bestmove", k) <= 1
\* bestmove(k) comes after every info(k)
InfoBeforeBest == \A i, j \in 1..Len(All) : (All[i][1] = "bestmove" /\ All[j] = <<"info", All[i][2]>>) => j < i
NeverTooManyAnswers == Count("readyok", 0) <= nIsr /\ Count("line", 0) <= nLines
AtEnd == Done => /\ \A k \in 1..goId : Count("bestmove", k) = 1
                 /\ out = <<>> /\ whold = <<>>
                 /\ (~quitSent => Count("readyok", 0) = nIsr /\ Count("line", 0) = nLines /\ goId = goSent)
Termination == <>Done
=============================================================================
