------------------------------ MODULE TimeCtl ------------------------------
(***************************************************************************)
(* C14: the time budget granted to a search.                               *)
(*                                                                         *)
(* Requirement  - what the property demands of (soft, hard) for a clock    *)
(*                state, independent of any formula.                       *)
(* SoftModel / HardModel - the formula the driver uses (uci.go:            *)
(*                remaining/30 + inc/2, four times that clamped between    *)
(*                the safety margin and remaining - margin).               *)
(* TimeCtlApa.tla proves Requirement of the formula model on the whole     *)
(* domain with Apalache; TimeTrace.tla binds the formula model and the     *)
(* requirement to the values the real code computes.                       *)
(***************************************************************************)
EXTENDS Integers

Margin == 30
PredictedMoves == 30

MaxI(a, b) == IF a > b THEN a ELSE b
MinI(a, b) == IF a < b THEN a ELSE b

SoftModel(t, inc, mt) == IF mt > 0 THEN mt ELSE t \div PredictedMoves + inc \div 2
HardModel(t, inc, mt) ==
  IF mt > 0 THEN mt
  ELSE IF t <= Margin THEN t
  ELSE MinI(t - Margin, MaxI(4 * SoftModel(t, inc, mt), Margin))

\* t = remaining time of the side to move (>= 1), inc its increment, mt the fixed move time (0 = absent)
Requirement(t, inc, mt, soft, hard) ==
  IF mt > 0 THEN soft = mt /\ hard = mt
  ELSE /\ hard > 0
       /\ hard <= t
       /\ (t > Margin => hard <= t - Margin)
=============================================================================
