----------------------------- MODULE TunerFetch -----------------------------
(***************************************************************************)
(* How a tuner client obtains the data file (tools/tuner/client/client.go, *)
(* obtainEPD): if there is no local file, download it - the server sends   *)
(* the file LINE BY LINE through epd.Stream (the line reader of C20, which *)
(* skips empty lines) and the client writes every received line plus a     *)
(* newline; if there is a local file, compare its checksum with the        *)
(* server's (over the whole content): equal -> done, different -> delete.  *)
(* Every step counts as a retry; after EPDRetryCount (10) the client gives *)
(* up and exits.                                                           *)
(*                                                                         *)
(* A file is a sequence of lines; a line is "x" (non-empty) or "" (empty); *)
(* `nl` says whether the last line is newline-terminated.  The checksum is *)
(* injective on contents.                                                  *)
(***************************************************************************)
EXTENDS TunerFetchRules

VARIABLES server, local, retry, downloads, state
vars == <<server, local, retry, downloads, state>>

Init == /\ server \in File /\ local \in {Absent} \cup {s \in File : TRUE}
        /\ retry = 0 /\ downloads = 0 /\ state = "loop"

Download == /\ state = "loop" /\ retry < RetryCount /\ local = Absent
            /\ local' = Streamed(server) /\ downloads' = downloads + 1 /\ retry' = retry + 1
            /\ UNCHANGED <<server, state>>
Verify ==   /\ state = "loop" /\ retry < RetryCount /\ local # Absent
            /\ IF Same(local, server) THEN state' = "returned" /\ UNCHANGED <<local, retry>>
               ELSE local' = Absent /\ retry' = retry + 1 /\ UNCHANGED state
            /\ UNCHANGED <<server, downloads>>
GiveUp ==   /\ state = "loop" /\ retry >= RetryCount /\ state' = "exit" /\ UNCHANGED <<server, local, retry, downloads>>
Next == Download \/ Verify \/ GiveUp \/ (state # "loop" /\ UNCHANGED vars)
Spec == Init /\ [][Next]_vars /\ WF_vars(Next)

\* the client only goes on to tune with a byte-identical copy ...
ReturnsOnlyWithTheFile == state = "returned" => local # Absent /\ Same(local, server)
\* ... and it always ends
Ends == <>(state # "loop")
ReproducibleIffClean == Reproducible(server) <=> Clean(server)
\* a reproducible file is obtained with at most one download (two when a wrong local copy had to go first)
CleanIsObtained == (state # "loop" /\ Reproducible(server)) => state = "returned" /\ downloads <= 1
\* DESIGN OBSERVATION (required to fail): the documented format allows empty lines ("blank lines are skipped"),
\* but such a file can never be obtained by a client that does not already have it
FormatIsObtained == (state # "loop") => state = "returned"

=============================================================================
