------------------------------ MODULE TTTrace ------------------------------
(***************************************************************************)
(* Trace validation for the transposition table (C15): operation sequences *)
(* recorded on a real transp.Table are replayed through TT.tla's actions.  *)
(* After every store the dumped bucket must equal the model's bucket (the  *)
(* model IS the code's algorithm), every probe answer must satisfy the     *)
(* PROPERTY as stated on the ghost state (ProbeOK) and equal the model's   *)
(* probe, and the per-store clauses (ProbeAfterStore, AtMostOneEviction,   *)
(* BucketOK) are evaluated on the states the real sequence visits.         *)
(***************************************************************************)
EXTENDS TT, Json, IOUtils

Trace == ndJsonDeserialize(IOEnv.TRACE)
VARIABLE l
tvars == <<ttvars, l>>

MM(ev, rule, detail) == PrintT("MM " \o ToJson([l |-> l, t |-> ev.t, rule |-> rule, class |-> "", detail |-> detail]))
Expect(c, ev, rule, detail) == IF c THEN TRUE ELSE MM(ev, rule, detail)
IsEvent(e) == l <= Len(Trace) /\ Trace[l].ev = e /\ l' = l + 1

LaneOf(j) == [sig |-> j.sig, mv |-> j.mv, val |-> j.val, d |-> j.d, typ |-> j.typ, gen |-> j.gen]
DumpOf(ev) == <<LaneOf(ev.bk[1]), LaneOf(ev.bk[2]), LaneOf(ev.bk[3]), LaneOf(ev.bk[4])>>

TNew == /\ IsEvent("new") /\ tbl' = <<>> /\ ghost' = <<>> /\ nb' = Trace[l].nb
TClear == IsEvent("clear") /\ Clear
TResize == IsEvent("resize") /\ ResizeThenClear(Trace[l].nb)

TInsert ==
  /\ IsEvent("insert")
  /\ LET ev == Trace[l] IN
       /\ Insert(ev.b, ev.sig, ev.gen, ev.d, ev.ply, ev.mv, ev.val, ev.typ)
       /\ Expect(DumpOf(ev) = InsertBucket(Bucket(ev.b), ev.sig, ev.gen, ev.d, ev.ply, ev.mv, ev.val, ev.typ), ev, "C15/bucket-differs-from-model",
                 [want |-> InsertBucket(Bucket(ev.b), ev.sig, ev.gen, ev.d, ev.ply, ev.mv, ev.val, ev.typ), got |-> ev.bk, before |-> Bucket(ev.b)])
       /\ Expect(ProbeAfterStore(ev.b, ev.sig, ev.gen, ev.d, ev.ply, ev.mv, ev.val, ev.typ), ev, "C15/probe-after-store", [b |-> ev.b, sig |-> ev.sig])
       /\ Expect(AtMostOneEviction(ev.b, ev.sig, ev.gen, ev.d, ev.ply, ev.mv, ev.val, ev.typ), ev, "C15/more-than-one-eviction", [b |-> ev.b, sig |-> ev.sig])

TLookUp ==
  /\ IsEvent("lookup")
  /\ LET ev == Trace[l]
         r == [hit |-> ev.hit, d |-> ev.d, typ |-> ev.typ, val |-> ev.val, mv |-> ev.mv]
         m == Probe(Bucket(ev.b), ev.sig, ev.ply)
     IN /\ IF ev.sig # 0   \* signature 0 encodes "empty": excluded from the no-phantom clause
           THEN Expect(ProbeOK(ev.b, ev.sig, ev.ply, r), ev, IF r.hit /\ <<ev.b, ev.sig>> \notin DOMAIN ghost THEN "C15/phantom-hit" ELSE "C15/probe-answer",
                       [got |-> r, stored |-> IF <<ev.b, ev.sig>> \in DOMAIN ghost THEN ghost[<<ev.b, ev.sig>>] ELSE <<>>, ply |-> ev.ply])
           ELSE TRUE
        /\ Expect(ev.sig = 0 \/ r = m, ev, "C15/probe-differs-from-model", [got |-> r, model |-> m])
        \* the property on the model state the real sequence has reached
        /\ Expect(BucketOK(ev.b), ev, "INFRA/model-invariant-BucketOK", [b |-> ev.b])
  /\ UNCHANGED ttvars

\* match64: lowest lane whose 16 bits equal the key
TMatch ==
  /\ IsEvent("match64")
  /\ LET ev == Trace[l]
         hits == {i \in 1..4 : ev.w[i] = ev.key}
     IN Expect(ev.ok = (hits # {}) /\ (hits # {} => ev.ix + 1 = CHOOSE i \in hits : \A j \in hits : i <= j), ev, "C15/match64", [w |-> ev.w, key |-> ev.key, ix |-> ev.ix, ok |-> ev.ok])
  /\ UNCHANGED ttvars

TPanic == /\ IsEvent("panic") /\ MM(Trace[l], "PANIC/engine", [msg |-> Trace[l].msg]) /\ UNCHANGED ttvars

TInit == tbl = <<>> /\ ghost = <<>> /\ nb = 1 /\ l = 1
TNext == TNew \/ TClear \/ TResize \/ TInsert \/ TLookUp \/ TMatch \/ TPanic
Done == PrintT("DONE " \o ToString(TLCGet("stats").diameter - 1) \o " " \o ToString(Len(Trace)))
=============================================================================
