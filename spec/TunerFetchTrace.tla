--------------------------- MODULE TunerFetchTrace ---------------------------
(* Binds TunerFetch.tla to the real download loop (client.obtainEPD through the verif export, run in a child     *)
(* process because it ends the process when it gives up; server side: the repository's own epd.Stream and        *)
(* epd.Checksum).  One event per scenario: the server's file and the local file before, as line shapes; the      *)
(* outcome (returned / exit), the number of downloads and whether the local file equals the server's afterwards. *)
EXTENDS TunerFetchRules, Json, IOUtils, TLC

Trace == ndJsonDeserialize(IOEnv.TRACE)
VARIABLE l
MM(ev, rule, detail) == PrintT("MM " \o ToJson([l |-> l, t |-> ev.t, rule |-> rule, class |-> "", detail |-> detail]))
Expect(c, ev, rule, detail) == IF c THEN TRUE ELSE MM(ev, rule, detail)

FileOf(j) == IF j.absent THEN Absent ELSE [lines |-> j.lines, nl |-> j.nl]
Judge(ev) ==
  LET srv == FileOf(ev.server) loc == FileOf(ev.local) want == Outcome(srv, loc) IN
  /\ Expect(ev.outcome = want.state, ev, "F/outcome", [server |-> ev.server, local |-> ev.local, want |-> want.state, got |-> ev.outcome])
  /\ Expect(ev.downloads = want.downloads, ev, "F/downloads", [server |-> ev.server, local |-> ev.local, want |-> want.downloads, got |-> ev.downloads])
  /\ Expect(ev.outcome # "returned" \/ ev.same, ev, "F/went-on-with-a-different-file", [server |-> ev.server, local |-> ev.local])

TInit == l = 1
TNext == l <= Len(Trace) /\ Judge(Trace[l]) /\ l' = l + 1
Done == PrintT("DONE " \o ToString(TLCGet("stats").diameter - 1) \o " " \o ToString(Len(Trace)))
=============================================================================
