------------------------------ MODULE TunerMC ------------------------------
(* Model-checking instance of Tuner.tla: all widths 1..MaxBits, every choice of round functions from a family
   of four (zero, identity, a scrambler, complement-ish) for each of the rounds, every n <= 2^MaxBits;
   batches/chunks for every n <= MaxN with small batch and chunk counts. *)
EXTENDS Tuner
CONSTANTS MaxBits, MaxN
VARIABLE done

Dom == 0..Mask(MaxBits)
Fam == << [x \in Dom |-> 0], [x \in Dom |-> x], [x \in Dom |-> (x * 37 + 11) % Pow2(MaxBits)], [x \in Dom |-> Mask(MaxBits) - x] >>
FourRounds == {<<Fam[a], Fam[b], Fam[c], Fam[d]>> : a, b, c, d \in 1..4}
ThreeRounds == {<<Fam[a], Fam[b], Fam[c]>> : a, b, c \in 1..4}

FeistelOK == \A bits \in 1..MaxBits : \A F \in FourRounds : FeistelBijective(bits, F)
ShuffleOK == \A n \in 1..Pow2(MaxBits) : \A F \in FourRounds : ShuffleIsPermutation(n, F)
\* necessity: three rounds lose bijectivity for some odd width
OddRoundsBreak == \E bits \in {b \in 1..MaxBits : b % 2 = 1} : \E F \in ThreeRounds : ~FeistelBijective(bits, F)

EpochOK == \A n \in 0..MaxN : \A B \in 1..5 : \A C \in 1..3 :
   LET bs == Batches(n, B) IN
   /\ Partitions(bs, 0, n)
   /\ \A i \in 1..Len(bs) : Partitions(Chunks(bs[i], B, C), bs[i].s, bs[i].e) /\ Len(Chunks(bs[i], B, C)) <= C

Init == done = FALSE
Next == /\ ~done /\ done' = TRUE
        /\ Assert(FeistelOK, "Feistel not bijective")
        /\ Assert(ShuffleOK, "shuffle not a permutation")
        /\ Assert(OddRoundsBreak, "necessity: odd round count should break odd widths")
        /\ Assert(EpochOK, "batches/chunks do not partition")
        /\ PrintT("TUNERMC " \o ToString(Cardinality(FourRounds) * MaxBits))
=============================================================================
