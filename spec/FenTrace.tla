------------------------------ MODULE FenTrace ------------------------------
(***************************************************************************)
(* C11: what the real FEN parser / printer / UCI position command did with *)
(* the inputs generated from Fen.tla.                                      *)
(*  - parsing never panics (neither ParseFEN nor FromFEN nor printing what  *)
(*    was accepted)                                                        *)
(*  - a canonical text parses to exactly the position it denotes and is    *)
(*    printed back as the same text; the UCI position command accepts it   *)
(*    when its piece counts are reachable by promotion                     *)
(*  - after `position fen X` the driver's position is the previous one     *)
(*    (X rejected) or the one X's first six fields denote: never a         *)
(*    rejected or half-parsed one                                          *)
(***************************************************************************)
EXTENDS Chess, Json, IOUtils

Trace == ndJsonDeserialize(IOEnv.TRACE)
Batch == 64
VARIABLE l
MM(i, ev, rule, detail) == PrintT("MM " \o ToJson([l |-> i, t |-> ev.t, rule |-> rule, class |-> "", detail |-> detail]))
Text(ev) == IF ev.s # "" THEN ev.s ELSE "hex:" \o ev.hex

PromotionReachable(p) == CountsReachable(p.bd, 0) /\ CountsReachable(p.bd, 1)
                         /\ Cardinality(Kings(p.bd, 0)) = 1 /\ Cardinality(Kings(p.bd, 1)) = 1

Judge(i) ==
  LET ev == Trace[i] IN
  /\ IF ev.panic THEN MM(i, ev, "C11/parser-panics", [input |-> Text(ev), msg |-> ev.panicMsg]) ELSE TRUE
  /\ IF ev.canon
     THEN LET want == PosOfJson(ev.want) IN
          /\ IF ev.acc /\ ~ev.panic /\ PosOfJson(ev.pos) = want THEN TRUE
             ELSE MM(i, ev, "C11/canonical-fen-misparsed", [input |-> Text(ev), accepted |-> ev.acc])
          /\ IF ~ev.acc \/ ev.printed = FenOf(want) THEN TRUE
             ELSE MM(i, ev, "C11/canonical-fen-not-printed-back", [input |-> Text(ev), printed |-> ev.printed, want |-> FenOf(want)])
          /\ IF ev.s = FenOf(want) THEN TRUE ELSE MM(i, ev, "INFRA/canonical-text", [input |-> Text(ev)])
          \* the UCI position command accepts the FEN of every position whose material is reachable by promotion
          /\ IF ev.uci /\ PromotionReachable(want) /\ ev.uciOut # FenOf(want)
             THEN MM(i, ev, "C11/uci-rejects-valid-fen", [input |-> Text(ev), got |-> ev.uciOut]) ELSE TRUE
     ELSE TRUE
  \* the no-allocation parser fills a caller-supplied board: the result may not depend on what that board held before
  /\ IF ev.acc /\ ev.accNoAlloc /\ "reusePos" \in DOMAIN ev /\ ev.reusePos # ev.pos
     THEN MM(i, ev, "C11/parse-result-depends-on-previous-board-contents", [input |-> Text(ev), fresh |-> FenOf(PosOfJson(ev.pos)), reused |-> FenOf(PosOfJson(ev.reusePos))]) ELSE TRUE
  /\ IF ev.acc # ev.accNoAlloc THEN MM(i, ev, "C11/two-parsers-disagree", [input |-> Text(ev)]) ELSE TRUE
  /\ IF ev.uci /\ ~(ev.uciOut = ev.baseFen \/ (ev.uciAcc /\ ev.uciOut = ev.uciPrinted))
     THEN MM(i, ev, "C11/uci-installed-a-rejected-position", [input |-> Text(ev), before |-> ev.baseFen, after |-> ev.uciOut]) ELSE TRUE
  \* ... nor does a rejected position command play its move list on the current position
  /\ IF "uciMovesOut" \in DOMAIN ev /\ ev.uciMovesOut # ev.baseFen
     THEN MM(i, ev, "C11/uci-installed-a-rejected-position", [input |-> Text(ev), moves |-> ev.uciMove, before |-> ev.baseFen, after |-> ev.uciMovesOut]) ELSE TRUE

TInit == l = 1
TNext == /\ l <= Len(Trace)
         /\ \A i \in l..(IF l + Batch - 1 < Len(Trace) THEN l + Batch - 1 ELSE Len(Trace)) : Judge(i)
         /\ l' = l + Batch
Done == TLCGet("stats").diameter >= 0 /\ PrintT("DONE " \o ToString(Len(Trace)) \o " " \o ToString(Len(Trace)))
=============================================================================
