----------------------------- MODULE TimeTrace -----------------------------
(***************************************************************************)
(* Binds TimeCtl.tla to uci.timeControl (through the verif hook            *)
(* VerifLimits, and through `go wtime ...` on a real driver with a mock    *)
(* search that records the soft time it was given).                        *)
(* Values are passed as limb pairs <<hi, lo>> (value = hi * 2^20 + lo)     *)
(* because TLC integers are 32 bit; the formula model is compared only     *)
(* when everything fits comfortably, the requirement always.               *)
(***************************************************************************)
EXTENDS TimeCtl, Sequences, Json, IOUtils, TLC

Trace == ndJsonDeserialize(IOEnv.TRACE)
Batch == 64
VARIABLE l

B == 1048576
Small(x) == x[1] < 900          \* below ~9.4 * 10^8
Val(x) == x[1] * B + x[2]
LE(a, b) == a[1] < b[1] \/ (a[1] = b[1] /\ a[2] <= b[2])
EQ(a, b) == a[1] = b[1] /\ a[2] = b[2]
Pos(a) == a[1] > 0 \/ a[2] > 0
Sub30(a) == IF a[2] >= Margin THEN <<a[1], a[2] - Margin>> ELSE <<a[1] - 1, a[2] + B - Margin>>
GT30(a) == a[1] > 0 \/ a[2] > Margin

ReqL(t, mt, soft, hard) ==
  IF Pos(mt) THEN EQ(soft, mt) /\ EQ(hard, mt)
  ELSE Pos(hard) /\ LE(hard, t) /\ (GT30(t) => LE(hard, Sub30(t)))

MM(i, rule, detail) == PrintT("MM " \o ToJson([l |-> i, t |-> 0, rule |-> rule, class |-> "", detail |-> detail]))

(* A deadline probe: a search that only ends when the driver closes its stop  *)
(* channel, started by `go wtime ...` (or go ponder ... ponderhit), while the *)
(* GUI keeps sending harmless lines.  In Uci.tla the timer is armed once, at  *)
(* go / ponderhit (timerArmed), and no other input line touches it; so the    *)
(* search must have been aborted by the timer - not by the `stop` the probe   *)
(* sends after hard + slack.  One-sided: nothing is asserted about how early. *)
JudgeDl(i) ==
  LET d == Trace[i].dl IN
  IF d.byTimer /\ d.after <= d.hard + d.slack THEN TRUE
  ELSE MM(i, "C14/deadline-not-enforced-while-input-arrives", [dl |-> d])

JudgeClock(i) ==
  LET ev == Trace[i]
      own == IF ev.stm = 0 THEN ev.w ELSE ev.b
      inc == IF ev.stm = 0 THEN ev.wi ELSE ev.bi
  IN
  /\ IF ev.timed THEN TRUE ELSE MM(i, "C14/not-timed", [ev |-> ev])
  /\ IF ReqL(own, ev.mt, ev.soft, ev.hard) THEN TRUE ELSE MM(i, "C14/requirement", [ev |-> ev])
  \* the formula model describes the code (this is what lets the Apalache result speak about the code)
  /\ IF Small(own) /\ Small(inc) /\ Small(ev.mt) /\ Val(inc) <= 100000000
     THEN IF Val(ev.hard) = HardModel(Val(own), Val(inc), Val(ev.mt)) /\ Val(ev.soft) = SoftModel(Val(own), Val(inc), Val(ev.mt))
          THEN TRUE ELSE MM(i, "C14/formula-model", [ev |-> ev, wantHard |-> HardModel(Val(own), Val(inc), Val(ev.mt)), wantSoft |-> SoftModel(Val(own), Val(inc), Val(ev.mt))])
     ELSE TRUE
  \* the deadline depends only on the mover's own clock: outcomes under other opponent clocks are identical
  /\ \A k \in 1..Len(ev.alt) :
        IF EQ(ev.alt[k].soft, ev.soft) /\ EQ(ev.alt[k].hard, ev.hard) THEN TRUE
        ELSE MM(i, "C14/depends-on-opponent-clock", [ev |-> ev, k |-> k])
  \* through the driver: the soft time the search received equals the soft target
  /\ IF "drv" \in DOMAIN ev THEN (IF EQ(ev.drv, ev.soft) THEN TRUE ELSE MM(i, "C14/driver-soft-time", [ev |-> ev])) ELSE TRUE
  \* ... also when it is the second go of a session: the limits of an earlier go are gone (handleGo starts from an
  \* empty timeControl for every command)
  /\ IF "seq" \in DOMAIN ev THEN (IF ev.seq.n = 2 /\ EQ(ev.seq.got, ev.soft) THEN TRUE ELSE MM(i, "C14/limits-of-an-earlier-go-survive", [ev |-> ev])) ELSE TRUE

Judge(i) == IF "dl" \in DOMAIN Trace[i] THEN JudgeDl(i) ELSE JudgeClock(i)

TInit == l = 1
TNext == /\ l <= Len(Trace)
         /\ \A i \in l..(IF l + Batch - 1 < Len(Trace) THEN l + Batch - 1 ELSE Len(Trace)) : Judge(i)
         /\ l' = l + Batch
Done == TLCGet("stats").diameter >= 0 /\ PrintT("DONE " \o ToString(Len(Trace)) \o " " \o ToString(Len(Trace)))
=============================================================================
