------------------------------ MODULE Sampling ------------------------------
(***************************************************************************)
(* tools/extract/sampling: how positions are binned by features (game      *)
(* phase, outcome, material imbalance) and thinned so that every bin is    *)
(* represented equally in the training set.                                *)
(*   Combined   - mixed-radix index of the feature values: a bijection     *)
(*                between feature tuples and 0..Dim-1 (no two bins merge)  *)
(*   Scale      - round(v * size / dim), clamped: in range and monotone    *)
(*   Uniform    - keep probability of bin v = (smallest non-empty count) / *)
(*                count(v): the expected number kept is the same for every *)
(*                non-empty bin, the rarest bin is kept whole              *)
(***************************************************************************)
EXTENDS Integers, Sequences, FiniteSets

RECURSIVE Prod(_, _)
Prod(dims, i) == IF i > Len(dims) THEN 1 ELSE dims[i] * Prod(dims, i + 1)
Dim(dims) == Prod(dims, 1)
\* as the code computes it: last feature has stride 1
RECURSIVE Index(_, _, _)
Index(dims, vals, i) == IF i > Len(dims) THEN 0 ELSE vals[i] * Prod(dims, i + 1) + Index(dims, vals, i + 1)
Value(dims, vals) == Index(dims, vals, 1)

Tuples(dims) == {v \in [1..Len(dims) -> 0..3] : \A i \in 1..Len(dims) : v[i] < dims[i]}
CombinedBijective(dims) ==
  /\ \A v \in Tuples(dims) : Value(dims, v) \in 0..(Dim(dims) - 1)
  /\ \A v, w \in Tuples(dims) : Value(dims, v) = Value(dims, w) => v = w
  /\ Cardinality(Tuples(dims)) = Dim(dims)

\* math.Round(v * size / dim) for non-negative arguments = floor((2 v size + dim) / (2 dim))
ScaleValue(v, dim, size) == LET r == (2 * v * size + dim) \div (2 * dim) IN IF r >= size THEN size - 1 ELSE r
ScaleOK(dim, size) ==
  /\ \A v \in 0..(dim - 1) : ScaleValue(v, dim, size) \in 0..(size - 1)
  /\ \A v \in 0..(dim - 2) : ScaleValue(v, dim, size) <= ScaleValue(v + 1, dim, size)

Min(S) == CHOOSE x \in S : \A y \in S : x <= y
\* keep probability of bin v as a fraction <<num, den>>
KeepFrac(counts, v) == IF counts[v] = 0 THEN <<0, 1>> ELSE <<Min({counts[i] : i \in {j \in 1..Len(counts) : counts[j] > 0}}), counts[v]>>

Dims == {d \in UNION {[1..n -> 1..4] : n \in 0..3} : TRUE}
Check == /\ \A d \in Dims : CombinedBijective(d)
         /\ \A dim \in 1..12 : \A size \in 1..12 : ScaleOK(dim, size)
=============================================================================
