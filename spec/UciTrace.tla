------------------------------ MODULE UciTrace ------------------------------
(***************************************************************************)
(* Trace validation for the UCI driver (C13).  A recorded scenario is the  *)
(* sequence of OBSERVABLE events of one run of a real uci.Driver:          *)
(*    send c      the GUI is about to write command c   (logged before)    *)
(*    eof         the GUI is about to close stdin       (logged before)    *)
(*    out kind    a complete line arrived on stdout     (logged after)     *)
(*    sStart / sInfo / sPollStop r / sPollPonder r / sRet                  *)
(*                the steps of the controllable mock search                *)
(*    exit        Driver.Run returned                   (logged after)     *)
(*    timeout     the harness waited in vain for an answer                 *)
(* All steps of the driver's own goroutines are NOT logged: TLC infers     *)
(* them (every action of Uci!DriverNext except the writer's dequeue is a   *)
(* hidden step).  A scenario is accepted iff some interleaving of hidden   *)
(* steps consumes it to its end; acceptance is recorded per scenario in a  *)
(* TLC register so that one rejected scenario does not hide the others.    *)
(* `timeout` can be consumed only where the model itself is quiescent: if  *)
(* the model says the driver must still move or answer, the scenario is    *)
(* rejected (deadlock / lost answer in the implementation).                *)
(***************************************************************************)
EXTENDS Uci, Json, IOUtils

Trace == ndJsonDeserialize(IOEnv.TRACE)
TraceUciLines == Trace[1].ucilines

VARIABLES l,      \* next trace line
          owed,   \* info lines the mock search has announced but whose channel send has not happened yet
          mock    \* the scenario uses the controllable mock search (its steps are logged)
tvars == <<vars, l, owed, mock>>

Ev == Trace[l]
Is(e) == l <= Len(Trace) /\ Trace[l].ev = e
Step == l' = l + 1

\* hidden steps: the driver's goroutines except the writer's visible dequeue
HiddenDriver == RScan \/ RClose \/ SendToHandler \/ SendToInterrupt \/ HRecvClosed \/ HExec \/ HEmit \/ HCloseFin \/ HWait \/ HBest \/ HCloseOut
                \/ ISelect \/ IHandle \/ ICloseStop
Hidden ==
  /\ l <= Len(Trace)
  /\ \/ HiddenDriver /\ UNCHANGED owed
     \/ (WTake \/ WDone) /\ UNCHANGED owed
     \/ mock /\ owed > 0 /\ SInfo /\ owed' = owed - 1          \* the announced info line gets onto the channel
     \/ ~mock /\ (SInfo \/ SPollStop \/ SPollPonder \/ SFinish) /\ UNCHANGED owed   \* real search: unlogged
  /\ UNCHANGED <<l, mock>>

IsBeginAt(j) == IF j > Len(Trace) THEN TRUE ELSE Trace[j].ev = "begin"
NextBegin(i) == CHOOSE j \in (i + 1)..(Len(Trace) + 1) : IsBeginAt(j) /\ \A k \in (i + 1)..(j - 1) : ~IsBeginAt(k)
Begin ==
  /\ Is("begin")
  /\ Reset /\ Step /\ owed' = 0 /\ mock' = Ev.mock
\* a scenario that cannot be continued is given up (it is then missing from the accepted set)
Abandon ==
  /\ l <= Len(Trace) /\ ~Is("begin")
  /\ l' = NextBegin(l)
  /\ Reset /\ owed' = 0 /\ mock' = FALSE

TSend == /\ Is("send") /\ GuiSend(Ev.c) /\ Step /\ UNCHANGED <<owed, mock>>
TEof == /\ Is("eof") /\ GuiClose /\ Step /\ UNCHANGED <<owed, mock>>
TOut ==
  /\ Is("out")
  /\ whold # <<>> /\ whold[1] = Ev.kind /\ WPut
  /\ Step /\ UNCHANGED <<owed, mock>>

SearchRunning == hpc = "search" /\ spc = "run" /\ owed = 0
TSStart == /\ Is("sStart") /\ mock /\ SearchRunning /\ infos = 0 /\ Step /\ UNCHANGED <<vars, owed, mock>>
TSInfo == /\ Is("sInfo") /\ mock /\ SearchRunning /\ owed' = 1 /\ Step /\ UNCHANGED <<vars, mock>>
TSPollStop ==
  /\ Is("sPollStop") /\ mock /\ SearchRunning
  /\ IF Ev.r THEN SPollStop ELSE ~stopClosed /\ UNCHANGED vars
  /\ Step /\ UNCHANGED <<owed, mock>>
TSPollPonder ==
  /\ Is("sPollPonder") /\ mock /\ SearchRunning
  /\ IF Ev.r THEN SPollPonder ELSE (~pondering \/ ponderChan = 0) /\ UNCHANGED vars
  /\ Step /\ UNCHANGED <<owed, mock>>
TSRet == /\ Is("sRet") /\ mock /\ SearchRunning /\ SFinish /\ Step /\ UNCHANGED <<owed, mock>>

TExit == /\ Is("exit") /\ Done /\ err = "" /\ Step /\ UNCHANGED <<vars, owed, mock>>

\* the harness waited in vain: only acceptable where the model cannot move either
Quiescent == ~ENABLED HiddenDriver /\ ~ENABLED WTake /\ whold = <<>> /\ owed = 0
\* ... except that a wait for the driver's exit cannot end in vain where the model has terminated (quit or end
\* of input was sent before that wait began; Uci.tla is deadlock free and terminates, so Done is the only
\* quiescent state the model can be in then)
TTimeout == /\ Is("timeout") /\ Quiescent /\ (Ev.what = "exit" => ~Done) /\ Step /\ UNCHANGED <<vars, owed, mock>>

\* end of scenario: remember that it was consumed completely
TEnd ==
  /\ Is("end")
  /\ TLCSet(2, TLCGet(2) \cup {Ev.t})
  /\ Step /\ UNCHANGED <<vars, owed, mock>>

Visible == Begin \/ TSend \/ TEof \/ TOut \/ TSStart \/ TSInfo \/ TSPollStop \/ TSPollPonder \/ TSRet \/ TExit \/ TTimeout \/ TEnd
\* per-scenario high-water mark of the consumed prefix (for diagnosis of rejections)
Mark == LET t == IF l <= Len(Trace) THEN Trace[l].t ELSE 0
            hw == TLCGet(3)
        IN IF l <= Len(Trace) /\ (t \notin DOMAIN hw \/ hw[t] < l)
           THEN TLCSet(3, [x \in DOMAIN hw \cup {t} |-> IF x = t THEN l ELSE hw[x]])
           ELSE TRUE

TInit == Init /\ l = 1 /\ owed = 0 /\ mock = FALSE /\ TLCSet(2, {}) /\ TLCSet(3, <<>>)
TNext == (Visible \/ Hidden \/ Abandon) /\ Mark
NoPanicInv == err = ""
Done2 == /\ PrintT("ACCEPTED " \o ToJson(TLCGet(2)))
         /\ PrintT("HIGHWATER " \o ToJson(TLCGet(3)))
=============================================================================
