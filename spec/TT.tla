-------------------------------- MODULE TT --------------------------------
(***************************************************************************)
(* The transposition table of transp/transp.go (property C15).             *)
(*                                                                         *)
(* tbl    the table as the code has it: buckets of four lanes              *)
(*        [sig, mv, val, d, typ, gen]; signature 0 means "empty lane".     *)
(*        Only touched buckets are kept (a missing bucket is empty), so    *)
(*        the same module serves 1-bucket and 1 MB tables.                 *)
(* ghost  what the PROPERTY talks about: for every key (bucket,signature)  *)
(*        that is currently reachable, the last accepted store (depth,     *)
(*        bound, score, storing ply) and the latest non-null move stored   *)
(*        for it while it stayed in the table.                             *)
(*                                                                         *)
(* Insert/LookUp/Clear/Resize follow the code line by line (first matching *)
(* lane, keep-deeper rule, keep-move trick, lowest-quality victim with     *)
(* quality = depth + 2*(gen - current) on plain integers, mate re-basing). *)
(* The invariants state the property on the pair (tbl, ghost).             *)
(***************************************************************************)
EXTENDS Integers, Sequences, FiniteSets, TLC

Inf == 10000
MaxPlies == 64
Upper == 0  Lower == 1  Exact == 2

EmptyLane == [sig |-> 0, mv |-> 0, val |-> 0, d |-> 0, typ |-> 0, gen |-> 0]
EmptyBucket == <<EmptyLane, EmptyLane, EmptyLane, EmptyLane>>

VARIABLES tbl, ghost, nb
ttvars == <<tbl, ghost, nb>>

Bucket(b) == IF b \in DOMAIN tbl THEN tbl[b] ELSE EmptyBucket

Quality(cur, e) == e.d + 2 * (e.gen - cur)
Matches(bk, sig) == {i \in 1..4 : bk[i].sig = sig}
FirstMatch(bk, sig) == IF Matches(bk, sig) = {} THEN 0 ELSE CHOOSE i \in Matches(bk, sig) : \A j \in Matches(bk, sig) : i <= j
\* the lane the code's minimum search ends on: lowest quality, first such lane
Victim(bk, gen) == CHOOSE i \in 1..4 : /\ \A j \in 1..4 : Quality(gen, bk[i]) <= Quality(gen, bk[j])
                                       /\ \A j \in 1..(i - 1) : Quality(gen, bk[j]) > Quality(gen, bk[i])

IsMateStrict(v) == v > Inf - MaxPlies \/ v < -Inf + MaxPlies
StoreVal(v, ply) == IF v < -Inf + MaxPlies THEN v - ply ELSE IF v > Inf - MaxPlies THEN v + ply ELSE v
ProbeVal(v, ply) == IF v > Inf - MaxPlies THEN v - ply ELSE IF v < -Inf + MaxPlies THEN v + ply ELSE v

Refused(bk, sig, gen, d, typ) ==
  LET i == FirstMatch(bk, sig) IN i # 0 /\ typ # Exact /\ bk[i].d > d + 2 /\ bk[i].gen = gen

InsertBucket(bk, sig, gen, d, ply, mv, val, typ) ==
  LET i == FirstMatch(bk, sig) IN
  IF Refused(bk, sig, gen, d, typ) THEN bk
  ELSE LET r == IF i # 0 THEN i ELSE Victim(bk, gen)
           m == IF i # 0 /\ mv = 0 THEN bk[i].mv ELSE mv
       IN [bk EXCEPT ![r] = [sig |-> sig, mv |-> m, val |-> StoreVal(val, ply), d |-> d, typ |-> typ, gen |-> gen]]

\* result of a probe: <<hit, d, typ, value at ply, move>>
Probe(bk, sig, ply) ==
  LET i == FirstMatch(bk, sig) IN
  IF i = 0 THEN [hit |-> FALSE, d |-> 0, typ |-> 0, val |-> 0, mv |-> 0]
  ELSE [hit |-> TRUE, d |-> bk[i].d, typ |-> bk[i].typ, val |-> ProbeVal(bk[i].val, ply), mv |-> bk[i].mv]

Sigs(bk) == {bk[i].sig : i \in 1..4} \ {0}
GhostKeys(b) == {k \in DOMAIN ghost : k[1] = b}

(***************************************************************************)
(* Actions                                                                 *)
(***************************************************************************)
Insert(b, sig, gen, d, ply, mv, val, typ) ==
  LET old == Bucket(b)
      new == InsertBucket(old, sig, gen, d, ply, mv, val, typ)
      refused == Refused(old, sig, gen, d, typ)
      kept == {k \in DOMAIN ghost : k[1] # b \/ k[2] \in Sigs(new)}
      prevMv == IF <<b, sig>> \in DOMAIN ghost THEN ghost[<<b, sig>>].mv ELSE 0
      entry == [d |-> d, typ |-> typ, v |-> val, ply |-> ply, mv |-> IF mv # 0 THEN mv ELSE prevMv]
  IN /\ tbl' = [x \in DOMAIN tbl \cup {b} |-> IF x = b THEN new ELSE tbl[x]]
     /\ ghost' = IF refused THEN ghost
                 ELSE [k \in (kept \cup (IF sig # 0 THEN {<<b, sig>>} ELSE {})) |-> IF k = <<b, sig>> THEN entry ELSE ghost[k]]
     /\ nb' = nb

Clear == tbl' = <<>> /\ ghost' = <<>> /\ nb' = nb
\* a resize is always followed by a clear (contents after a bare resize are documented as unspecified)
ResizeThenClear(n) == tbl' = <<>> /\ ghost' = <<>> /\ nb' = n

(***************************************************************************)
(* The property, as predicates on (tbl, ghost)                             *)
(***************************************************************************)
\* scores a probe at `ply` may return for a score v stored at `sply`: mate distances re-based, all others
\* unchanged; exactly on the mate boundary both readings are accepted (no search produces that score)
Expected(v, sply, ply) ==
  IF IsMateStrict(v) THEN {v + (IF v > 0 THEN sply - ply ELSE ply - sply)}
  ELSE IF v = Inf - MaxPlies \/ v = -Inf + MaxPlies THEN {v, v + (IF v > 0 THEN sply - ply ELSE ply - sply)}
  ELSE {v}

\* what a probe of key (b, sig), sig # 0, must answer
ProbeOK(b, sig, ply, r) ==
  IF <<b, sig>> \in DOMAIN ghost
  THEN LET g == ghost[<<b, sig>>] IN
       r.hit /\ r.d = g.d /\ r.typ = g.typ /\ r.val \in Expected(g.v, g.ply, ply) /\ r.mv = g.mv
  ELSE ~r.hit

\* HitIsLastStore + NoForeignData: every reachable key answers with its own last store, unreachable ones miss
BucketOK(b) ==
  /\ Sigs(Bucket(b)) = {k[2] : k \in GhostKeys(b)}
  /\ \A s \in Sigs(Bucket(b)) : ProbeOK(b, s, 0, Probe(Bucket(b), s, 0)) /\ ProbeOK(b, s, 7, Probe(Bucket(b), s, 7))
  /\ \A s \in Sigs(Bucket(b)) : Cardinality(Matches(Bucket(b), s)) = 1
TableOK == \A b \in DOMAIN tbl : BucketOK(b)

\* A probe immediately after a store hits and reflects it, except for the keep-deeper refusal
ProbeAfterStore(b, sig, gen, d, ply, mv, val, typ) ==
  sig = 0 \/
  LET old == Bucket(b)
      r == Probe(InsertBucket(old, sig, gen, d, ply, mv, val, typ), sig, ply)
  IN IF Refused(old, sig, gen, d, typ)
     THEN r.hit /\ r.d > d + 2                        \* the deeper same-search entry stays
     ELSE r.hit /\ r.d = d /\ r.typ = typ /\ r.val \in Expected(val, ply, ply) /\ (mv # 0 => r.mv = mv)

\* A store makes at most one other key of its bucket unreachable
AtMostOneEviction(b, sig, gen, d, ply, mv, val, typ) ==
  LET old == Bucket(b) new == InsertBucket(old, sig, gen, d, ply, mv, val, typ)
  IN Cardinality((Sigs(old) \ Sigs(new)) \ {sig}) <= 1

=============================================================================
