--------------------------- MODULE TunerFetchRules ---------------------------
(* Files as line shapes, what streaming does to them, and the outcome of the download loop (shared by the model  *)
(* TunerFetch.tla and the trace spec).                                                                           *)
EXTENDS Naturals, Sequences
CONSTANTS MaxLines, RetryCount
Absent == [absent |-> TRUE]
File == [lines : UNION {[1..n -> {"x", ""}] : n \in 0..MaxLines}, nl : BOOLEAN]
\* what arrives after streaming line by line and writing line + newline
Streamed(f) == [lines |-> SelectSeq(f.lines, LAMBDA l : l # ""), nl |-> TRUE]
\* a file with no lines is the empty file whatever nl says
Norm(f) == IF Len(f.lines) = 0 THEN [lines |-> <<>>, nl |-> TRUE] ELSE f
Same(f, g) == Norm(f) = Norm(g)

\* the files a download can reproduce: no empty line anywhere, last line newline-terminated
Reproducible(f) == Same(Streamed(f), f)
Clean(f) == (\A i \in 1..Len(f.lines) : f.lines[i] # "") /\ (Len(f.lines) > 0 => f.nl)
\* what the real loop must do for a given start (used by the trace spec): outcome and number of downloads
Outcome(srv, loc) ==
  IF loc # Absent /\ Same(loc, srv) THEN [state |-> "returned", downloads |-> 0]
  ELSE IF Reproducible(srv) THEN [state |-> "returned", downloads |-> 1]
  ELSE [state |-> "exit", downloads |-> IF loc = Absent THEN (RetryCount + 1) \div 2 ELSE RetryCount \div 2]
=============================================================================
