---------------------------- MODULE SearchTrace ----------------------------
(***************************************************************************)
(* Trace validation of real searches (C06, C07, C08).  One recorded search *)
(* is  go  info*  ret ; the specification computes the root position from *)
(* the logged FEN + move prefix with Chess.tla, its legal moves, whether   *)
(* it is final (no legal move / clock >= 100 / third occurrence), and      *)
(* judges every reported variation, the returned move and ponder move, the *)
(* node counters against the budget, and the board snapshot before/after.  *)
(* The observable sequence must also be one Search.tla allows (depths      *)
(* strictly increasing, nothing after the abort line).                     *)
(***************************************************************************)
EXTENDS Chess, Json, IOUtils

Trace == ndJsonDeserialize(IOEnv.TRACE)

VARIABLES l, s
tvars == <<l, s>>

NoSearch == [on |-> FALSE]
MM(ev, rule, class, detail) == PrintT("MM " \o ToJson([l |-> l, t |-> ev.t, rule |-> rule, class |-> class, detail |-> detail]))
Expect(c, ev, rule, detail) == IF c THEN TRUE ELSE MM(ev, rule, "", detail)
IsEvent(e) == l <= Len(Trace) /\ Trace[l].ev = e /\ l' = l + 1

RECURSIVE Play(_, _, _)
Play(p, ms, i) == IF i > Len(ms) THEN p ELSE Play(Make(p, DecM(ms[i])), ms, i + 1)
RECURSIVE LinePlayable(_, _, _)
LinePlayable(p, ms, i) == i > Len(ms) \/ (DecM(ms[i]) \in Legal(p) /\ LinePlayable(Make(p, DecM(ms[i])), ms, i + 1))
RECURSIVE KeyLine(_, _, _, _)
KeyLine(p, ms, i, acc) == IF i > Len(ms) THEN acc
                          ELSE LET q == Make(p, DecM(ms[i])) IN KeyLine(q, ms, i + 1, Append(acc, [k |-> Key(q), h |-> ""]))
\* index of the first move of a line that is not legal where it is played (0 = the whole line is legal)
RECURSIVE FirstIllegal(_, _, _)
FirstIllegal(p, ms, i) == IF i > Len(ms) THEN 0
                          ELSE IF DecM(ms[i]) \in Legal(p) THEN FirstIllegal(Make(p, DecM(ms[i])), ms, i + 1) ELSE i

Context(ev) ==
  LET root == PosOfJson(ev.root)
      p == Play(root, ev.moves, 1)
      h == KeyLine(root, ev.moves, 1, <<[k |-> Key(root), h |-> ""]>>)
      \* known finding F4: a root FEN carrying an en-passant target that cannot be captured is hashed with it, so
      \* the engine misses exactly the root entry when it counts occurrences
      deadRoot == ~EpNormalised(root) /\ Len(h) >= 2 /\ Final(p, h) /\ ~Final(p, SubSeq(h, 2, Len(h))) /\ h[1].k = h[Len(h)].k
  IN [on |-> TRUE, p |-> p, legal |-> {EncM(m) : m \in Legal(p)}, final |-> Final(p, h), mated |-> Status(p) = 1,
      cls |-> IF deadRoot THEN "rep/root-ep-not-capturable" ELSE "",
      \* a search recorded without info output (tiny table) may have been aborted without us seeing the abort line:
      \* only the clauses that hold for aborted searches too are applied to it
      depth |-> ev.depth, hard |-> ev.hard, lastDepth |-> -1, lastNodes |-> 0, head |-> 0, aborted |-> (IF "tt" \in DOMAIN ev THEN ev.tt < 32000 ELSE FALSE), eng |-> ev.eng]

TGo ==
  /\ IsEvent("go")
  /\ LET ev == Trace[l] root == PosOfJson(ev.root) IN
       /\ Expect(FenOf(root) = ev.fen /\ Valid(root) /\ LinePlayable(root, ev.moves, 1), ev, "INFRA/search-root", [fen |-> ev.fen])
       /\ s' = Context(ev)

TInfo ==
  /\ IsEvent("info")
  /\ LET ev == Trace[l] IN
       /\ Expect(s.on /\ ~s.aborted, ev, "C07/line-after-abort-line", [depth |-> ev.depth])
       /\ Expect(ev.depth > s.lastDepth, ev, "C07/depth-not-increasing", [depth |-> ev.depth, previous |-> s.lastDepth])
       /\ Expect(ev.nodes >= s.lastNodes, ev, "C07/nodes-decreasing", [nodes |-> ev.nodes, previous |-> s.lastNodes])
       /\ Expect(s.hard = -1 \/ ev.nodes <= s.hard, ev, "C08/over-budget", [nodes |-> ev.nodes, hard |-> s.hard])
       /\ IF ev.abort THEN TRUE
          ELSE LET bad == FirstIllegal(s.p, ev.pv, 1) IN
               Expect(bad = 0, ev, "C07/variation-not-legal", [fen |-> FenOf(s.p), pv |-> ev.pv, firstIllegalIndex |-> bad, depth |-> ev.depth])
       /\ s' = [s EXCEPT !.lastDepth = ev.depth, !.lastNodes = ev.nodes, !.aborted = ev.abort,
                         !.head = IF ~ev.abort /\ Len(ev.pv) > 0 THEN ev.pv[1] ELSE s.head]

SnapEq(a, b) == a.pos = b.pos /\ a.hash = b.hash /\ a.hashes = b.hashes

TRet ==
  /\ IsEvent("ret")
  /\ LET ev == Trace[l] IN
       \* C06
       /\ Expect(ev.m = 0 \/ ev.m \in s.legal, ev, "C06/move-not-legal", [fen |-> FenOf(s.p), m |-> ev.m])
       /\ Expect(ev.m # 0 \/ s.final \/ s.depth < 1, ev, "C06/null-move-on-non-final-root", [fen |-> FenOf(s.p), aborted |-> s.aborted, depth |-> s.depth, hard |-> s.hard])
       /\ IF s.aborted \/ ~s.final \/ ev.m = 0 THEN TRUE
          ELSE MM(ev, "C06/completed-search-on-final-root-returns-a-move", s.cls, [fen |-> FenOf(s.p), m |-> ev.m])
       /\ IF s.aborted \/ ~s.final \/ ev.score = 0 \/ (s.mated /\ ev.score = -10000) THEN TRUE
          ELSE MM(ev, "C06/final-root-score", s.cls, [fen |-> FenOf(s.p), score |-> ev.score])
       /\ Expect(SnapEq(ev.before, ev.after), ev, "C06/position-object-changed", [before |-> FenOf(PosOfJson(ev.before.pos)), after |-> FenOf(PosOfJson(ev.after.pos)),
                                                                                  hashesBefore |-> Len(ev.before.hashes), hashesAfter |-> Len(ev.after.hashes)])
       /\ Expect(PosOfJson(ev.before.pos) = s.p, ev, "INFRA/search-root-differs", [fen |-> FenOf(s.p)])
       \* C07
       /\ Expect(s.head = 0 \/ ev.m = s.head, ev, "C07/move-is-not-head-of-last-variation", [m |-> ev.m, head |-> s.head, fen |-> FenOf(s.p)])
       /\ Expect(ev.ponder = 0 \/ (ev.m \in s.legal /\ DecM(ev.ponder) \in Legal(Make(s.p, DecM(ev.m)))), ev, "C07/ponder-not-legal", [m |-> ev.m, ponder |-> ev.ponder, fen |-> FenOf(s.p)])
       \* C08
       /\ Expect(s.hard = -1 \/ ev.nodes <= s.hard, ev, "C08/over-budget", [nodes |-> ev.nodes, hard |-> s.hard])
       /\ Expect(ev.nodes >= s.lastNodes, ev, "C07/nodes-decreasing", [nodes |-> ev.nodes, previous |-> s.lastNodes])
  /\ s' = NoSearch

\* the UCI go command with arbitrary numeric arguments: exactly one bestmove; legal, or 0000 only on a final root
\* (requests whose depth argument is below 1 are outside the property: only "one bestmove" is required)
TUciGo ==
  /\ IsEvent("uciGo")
  /\ LET ev == Trace[l] root == PosOfJson(ev.root) IN
       /\ Expect(FenOf(root) = ev.fen /\ Valid(root) /\ LinePlayable(root, ev.moves, 1), ev, "INFRA/search-root", [fen |-> ev.fen])
       /\ LET c == Context([ev EXCEPT !.depth = 1, !.hard = -1]) IN
            /\ Expect(ev.nbest = 1, ev, "C06/uci-bestmove-count", [args |-> ev.args, n |-> ev.nbest])
            /\ Expect(ev.best = "0000" \/ ev.m \in c.legal, ev, "C06/uci-move-not-legal", [args |-> ev.args, best |-> ev.best, fen |-> FenOf(c.p)])
            /\ IF ev.lowdepth THEN TRUE
               ELSE Expect(ev.best # "0000" \/ c.final, ev, "C06/uci-null-move-on-non-final-root", [args |-> ev.args, fen |-> FenOf(c.p)])
  /\ UNCHANGED s

TPanic == /\ IsEvent("panic") /\ MM(Trace[l], IF Trace[l].engine THEN "PANIC/engine" ELSE "INFRA/recorder-panic", "", [msg |-> Trace[l].msg]) /\ UNCHANGED s

TInit == l = 1 /\ s = NoSearch
TNext == TGo \/ TInfo \/ TRet \/ TUciGo \/ TPanic
Done == PrintT("DONE " \o ToString(TLCGet("stats").diameter - 1) \o " " \o ToString(Len(Trace)))
=============================================================================
