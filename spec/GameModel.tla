----------------------------- MODULE GameModel -----------------------------
(***************************************************************************)
(* The board object the way board/board.go IMPLEMENTS it (design level of *)
(* C02, C03, C04): three redundant placements (per-square piece type,      *)
(* per-type square sets, per-colour square sets), the sentinel encodings   *)
(* (en-passant square 0 = none), MakeMove / UndoMove / MakeNullMove /      *)
(* UndoNullMove transcribed statement by statement, the reverse token with *)
(* its packed fields, NewCastles, CanEnPassant with its occupancy trick,   *)
(* and Zobrist hashing in the free GF(2) model: a hash is a SET of         *)
(* features, xor is symmetric difference - so "incremental = from scratch" *)
(* and "same key => same hash" are exact statements.                       *)
(*                                                                         *)
(* TLC explores all pseudo-legal moves (and null moves) to a small depth   *)
(* from a set of roots and checks that this algorithm REFINES the rules:   *)
(*   MakeRefines    AbsPos(CodeMake(s, m)) = Chess!Make(Abs(s), m)  (legal m) *)
(*   UndoRestores   CodeUndo(CodeMake(s, m)) = s   (any pseudo-legal m)    *)
(*   HashIsScratch  the incrementally maintained hash = hash from scratch  *)
(*   Consistent     the three placements describe one placement            *)
(*   TokenFits      every token field fits its bit width                   *)
(* The sliding attacks are Geometry!RookAtt/BishopAtt, which C12 shows to  *)
(* be what attacks.RookMoves/BishopMoves compute.                          *)
(***************************************************************************)
EXTENDS Chess, Json, IOUtils

Roots == ndJsonDeserialize(IOEnv.ROOTS)
Shard == atoi(IOEnv.SHARD)
NShards == atoi(IOEnv.NSHARDS)
MaxDepth == atoi(IOEnv.MAXDEPTH)
Mine == {i \in 1..Len(Roots) : i % NShards = Shard}

(***************************** code state *****************************)
\* s = [sq : Sq -> 0..6, pcs : 1..6 -> SUBSET Sq, col : 0..1 -> SUBSET Sq, stm, ep (0 = none), cr, fifty, full, hashes]
XorSet(a, b) == (a \ b) \cup (b \ a)
PcFeat(c, p, x) == IF p = 0 THEN {} ELSE {<<"pc", c, p, x>>}
CrFeat(cr) == {<<"cr", b>> : b \in {k \in {1, 2, 4, 8} : HasRight(cr, k)}}

ScratchHash(s) ==
  UNION {UNION {PcFeat(c, s.sq[x], x) : x \in s.col[c]} : c \in 0..1}
  \cup (IF s.stm = 1 THEN {<<"stm">>} ELSE {})
  \cup CrFeat(s.cr)
  \cup (IF s.ep # 0 THEN {<<"ep", s.ep % 8>>} ELSE {})

FromPos(p) ==
  LET s0 == [sq |-> [x \in Sq |-> TypeOf(p.bd[x])],
             pcs |-> [t \in 1..6 |-> {x \in Sq : p.bd[x] # 0 /\ TypeOf(p.bd[x]) = t}],
             col |-> [c \in 0..1 |-> {x \in Sq : p.bd[x] # 0 /\ ColorOf(p.bd[x]) = c}],
             stm |-> p.stm, ep |-> IF p.ep = -1 THEN 0 ELSE p.ep, cr |-> p.cr, fifty |-> p.hm, full |-> p.fm, hashes |-> <<>>]
  IN [s0 EXCEPT !.hashes = <<ScratchHash(s0)>>]

AbsPos(s) == [bd |-> [x \in Sq |-> IF s.sq[x] = 0 THEN 0 ELSE Pc(IF x \in s.col[1] THEN 1 ELSE 0, s.sq[x])],
           stm |-> s.stm, cr |-> s.cr, ep |-> IF s.ep = 0 THEN -1 ELSE s.ep, hm |-> s.fifty, fm |-> s.full]

Consistent(s) ==
  /\ \A x \in Sq : (s.sq[x] = 0) = (x \notin s.col[0] \cup s.col[1])
  /\ s.col[0] \cap s.col[1] = {}
  /\ \A t \in 1..6 : s.pcs[t] = {x \in Sq : s.sq[x] = t}

(***************************** attacks as the code computes them *****************************)
\* attacks.PawnCaptureMoves(set, color): squares attacked by pawns of `color` standing on `set`
PawnCaps(set, color) == UNION {PawnAttT[color][x] : x \in set}
\* board.IsAttacked(by, occ, target)
IsAttackedC(s, by, occ, targets) ==
  LET other == s.col[by] IN
  \/ PawnCaps(s.pcs[P] \cap other, by) \cap targets # {}
  \/ \E x \in targets :
       \/ KingT[x] \cap s.pcs[K] \cap other # {}
       \/ KnightT[x] \cap s.pcs[N] \cap other # {}
       \/ BishopAtt(x, occ) \cap (s.pcs[Q] \cup s.pcs[B]) \cap other # {}
       \/ RookAtt(x, occ) \cap (s.pcs[R] \cup s.pcs[Q]) \cap other # {}
InCheckC(s, who) == IsAttackedC(s, 1 - who, s.col[0] \cup s.col[1], s.col[who] \cap s.pcs[K])

\* board.CanEnPassant(to), called BEFORE the pawn is moved
CanEnPassantC(s, to) ==
  LET them == s.col[1 - s.stm]
      shift == IF s.stm = 0 THEN 8 ELSE -8
      king == s.pcs[K] \cap them
      dest == to - shift
      from == to - 2 * shift
      ables == ({to - 1 : x \in {y \in {to} : File(y) > 0}} \cup {to + 1 : x \in {y \in {to} : File(y) < 7}}) \cap s.pcs[P] \cap them
  IN \E able \in ables :
       LET occ == ((s.col[0] \cup s.col[1]) \cup {dest}) \ {to, able, from} IN
       ~IsAttackedC(s, s.stm, occ, king)

(***************************** make / undo *****************************)
IsEPC(s, m) == s.ep # 0 /\ s.ep = m.t /\ s.sq[m.f] = P
CaptureSqC(s, m) == IF IsEPC(s, m) THEN File(m.t) + 8 * Rank(m.f) ELSE m.t

NewCastlesC(s, m) ==
  LET a1 == IF s.sq[m.f] = K THEN (IF s.stm = 0 THEN 3 ELSE 12) ELSE 0
      corner(x) == CASE x = 0 -> 2 [] x = 7 -> 1 [] x = 56 -> 8 [] x = 63 -> 4 [] OTHER -> 0
  IN BitClear(BitClear(BitClear(s.cr, a1), corner(m.f)), corner(m.t))
XorCr(a, b) == LET bit(k) == IF HasRight(a, k) # HasRight(b, k) THEN k ELSE 0 IN bit(1) + bit(2) + bit(4) + bit(8)

Remove(s, c, p, x) == IF p = 0 THEN s ELSE [s EXCEPT !.col[c] = @ \ {x}, !.pcs[p] = @ \ {x}, !.sq[x] = 0]
Add(s, c, p, x) == IF p = 0 THEN s ELSE [s EXCEPT !.col[c] = @ \cup {x}, !.pcs[p] = @ \cup {x}, !.sq[x] = p]

\* squares are xor-ed as 6-bit numbers in the token
XorSq(a, b) == LET bit(k) == IF ((a \div k) % 2) # ((b \div k) % 2) THEN k ELSE 0 IN bit(1) + bit(2) + bit(4) + bit(8) + bit(16) + bit(32)

\* result: [s |-> new state, r |-> reverse token]
CodeMake(s, m) ==
  LET hash0 == s.hashes[Len(s.hashes)]
      piece == s.sq[m.f]
      canEP == piece = P /\ Abs(m.f - m.t) = 16 /\ CanEnPassantC(s, m.t)
      csq == CaptureSqC(s, m)
      capture == s.sq[csq]
      crChange == XorCr(s.cr, NewCastlesC(s, m))
      fifty1 == IF piece = P \/ capture # 0 THEN 0 ELSE s.fifty + 1
      h1 == XorSet(hash0, CrFeat(crChange))
      put == IF m.pr # 0 THEN m.pr ELSE piece
      me == s.stm  opp == 1 - s.stm
      s1 == Remove(s, opp, capture, csq)
      s2 == Remove(s1, me, piece, m.f)
      s3 == Add(s2, me, put, m.t)
      h2 == XorSet(XorSet(XorSet(h1, PcFeat(opp, capture, csq)), PcFeat(me, piece, m.f)), PcFeat(me, put, m.t))
      h3 == IF s.ep # 0 THEN XorSet(h2, {<<"ep", s.ep % 8>>}) ELSE h2
      newEP == IF canEP THEN (m.f + m.t) \div 2 ELSE 0
      h4 == IF canEP THEN XorSet(h3, {<<"ep", newEP % 8>>}) ELSE h3
      \* castling: the rook jumps
      rookFrom == CASE m.f = 4 /\ m.t = 6 -> 7 [] m.f = 4 /\ m.t = 2 -> 0 [] m.f = 60 /\ m.t = 62 -> 63 [] m.f = 60 /\ m.t = 58 -> 56 [] OTHER -> -1
      rookTo == CASE m.f = 4 /\ m.t = 6 -> 5 [] m.f = 4 /\ m.t = 2 -> 3 [] m.f = 60 /\ m.t = 62 -> 61 [] m.f = 60 /\ m.t = 58 -> 59 [] OTHER -> -1
      castle == piece = K /\ rookFrom # -1
      s4 == IF castle THEN Add(Remove(s3, me, R, rookFrom), me, R, rookTo) ELSE s3
      h5 == IF castle THEN XorSet(XorSet(h4, PcFeat(me, R, rookFrom)), PcFeat(me, R, rookTo)) ELSE h4
      h6 == XorSet(h5, {<<"stm">>})
  IN [s |-> [s4 EXCEPT !.stm = opp, !.ep = newEP, !.cr = NewCastlesC(s, m), !.fifty = fifty1, !.full = s.full + s.stm,
                       !.hashes = Append(s.hashes, h6)],
      r |-> [fifty |-> s.fifty, cr |-> crChange, ep |-> XorSq(s.ep, newEP), cap |-> capture]]

CodeUndo(s, m, r) ==
  LET s0 == [s EXCEPT !.hashes = SubSeq(s.hashes, 1, Len(s.hashes) - 1), !.stm = 1 - s.stm]
      me == s0.stm
      rm == s0.sq[m.t]
      piece == IF m.pr # 0 THEN P ELSE rm
      rookNow == CASE m.f = 4 /\ m.t = 6 -> 5 [] m.f = 4 /\ m.t = 2 -> 3 [] m.f = 60 /\ m.t = 62 -> 61 [] m.f = 60 /\ m.t = 58 -> 59 [] OTHER -> -1
      rookHome == CASE m.f = 4 /\ m.t = 6 -> 7 [] m.f = 4 /\ m.t = 2 -> 0 [] m.f = 60 /\ m.t = 62 -> 63 [] m.f = 60 /\ m.t = 58 -> 56 [] OTHER -> -1
      s1 == IF piece = K /\ rookNow # -1 THEN Add(Remove(s0, me, R, rookNow), me, R, rookHome) ELSE s0
      s2 == [s1 EXCEPT !.ep = XorSq(s1.ep, r.ep)]
      s3 == Remove(s2, me, rm, m.t)
      s4 == Add(s3, me, piece, m.f)
      s5 == Add(s4, 1 - me, r.cap, CaptureSqC(s4, m))       \* CaptureSq is evaluated on the restored en-passant state
  IN [s5 EXCEPT !.cr = XorCr(s5.cr, r.cr), !.fifty = r.fifty, !.full = s5.full - me]

CodeNullMake(s) ==
  LET h0 == s.hashes[Len(s.hashes)]
      h1 == IF s.ep # 0 THEN XorSet(h0, {<<"ep", s.ep % 8>>}) ELSE h0
  IN [s |-> [s EXCEPT !.ep = 0, !.stm = 1 - s.stm, !.hashes = Append(s.hashes, XorSet(h1, {<<"stm">>}))],
      r |-> [fifty |-> 0, cr |-> 0, ep |-> s.ep, cap |-> 0]]
CodeNullUndo(s, r) == [s EXCEPT !.stm = 1 - s.stm, !.ep = r.ep, !.hashes = SubSeq(s.hashes, 1, Len(s.hashes) - 1)]

TokenFits(r) == r.fifty \in 0..255 /\ r.cr \in 0..15 /\ r.ep \in 0..63 /\ r.cap \in 0..7

(***************************** exploration *****************************)
VARIABLES st, depth
mvars == <<st, depth>>
Init == \E i \in Mine : st = FromPos(PosOfJson(Roots[i].pos)) /\ depth = 0

LegalC(s, m) == ~InCheckC(CodeMake(s, m).s, s.stm)

StepOK(s, m) ==
  LET res == CodeMake(s, m) p == AbsPos(s) IN
  /\ Assert(CodeUndo(res.s, m, res.r) = s, <<"UndoRestores", FenOf(p), EncM(m)>>)
  /\ Assert(TokenFits(res.r), <<"TokenFits", FenOf(p), EncM(m)>>)
  /\ Assert(Consistent(res.s), <<"Consistent", FenOf(p), EncM(m)>>)
  /\ Assert(res.s.hashes[Len(res.s.hashes)] = ScratchHash(res.s), <<"HashIsScratch", FenOf(p), EncM(m)>>)
  /\ Assert(LegalC(s, m) = LegalM(p, m), <<"legality filter", FenOf(p), EncM(m)>>)
  /\ (LegalM(p, m) => Assert(AbsPos(res.s) = Make(p, m), <<"MakeRefines", FenOf(p), EncM(m), FenOf(AbsPos(res.s)), FenOf(Make(p, m))>>))

NullOK(s) ==
  LET res == CodeNullMake(s) IN
  /\ Assert(CodeNullUndo(res.s, res.r) = s, <<"NullUndoRestores", FenOf(AbsPos(s))>>)
  /\ Assert(res.s.hashes[Len(res.s.hashes)] = ScratchHash(res.s), <<"Null HashIsScratch", FenOf(AbsPos(s))>>)

Next ==
  /\ depth < MaxDepth
  /\ \A m \in Pseudo(AbsPos(st)) : StepOK(st, m)                 \* every pseudo-legal move is made and undone
  /\ (~InCheck(AbsPos(st).bd, st.stm) => NullOK(st))
  /\ \E m \in Legal(AbsPos(st)) : st' = CodeMake(st, m).s
  /\ depth' = depth + 1

StateOK == Consistent(st) /\ st.hashes[Len(st.hashes)] = ScratchHash(st)
\* two states with the same key have the same hash (transposition consistency), checked pairwise by TLC's
\* state graph through this invariant on each state: the hash is a function of the key
HashIsFunctionOfKey == LET p == AbsPos(st) IN
   st.hashes[Len(st.hashes)] = ScratchHash(FromPos([p EXCEPT !.ep = IF EpCapturable(p, p.ep) THEN p.ep ELSE -1]))
      \/ (depth = 0 /\ ~EpNormalised(p))      \* a root loaded with a dead target (known finding F4) is the only exception
=============================================================================
