-------------------------------- MODULE Fen --------------------------------
(***************************************************************************)
(* FEN text as a sequence of one-character strings (C11).                  *)
(*   FenChars(pos)   the canonical text of a position                      *)
(*   SemEdits(pos)   positions one SEMANTIC edit away (another piece on a  *)
(*                   square, side to move, castling rights, en-passant     *)
(*                   target, counters): their texts are canonical by       *)
(*                   construction and must parse to exactly that position  *)
(*   SynEdits(cs)    every single SYNTACTIC edit of a text (truncation at  *)
(*                   every index, deletion, replacement and insertion of   *)
(*                   every alphabet symbol and of ANY, field duplication / *)
(*                   dropping / swapping, over-long counters): parsing     *)
(*                   them must never crash and the UCI position command    *)
(*                   must never install a rejected one                     *)
(***************************************************************************)
EXTENDS Chess

RECURSIVE Digits(_)
Digits(n) == IF n < 10 THEN <<ToString(n)>> ELSE Digits(n \div 10) \o <<ToString(n % 10)>>

RECURSIVE RankChars(_, _, _, _)
RankChars(bd, r, f, run) ==
  IF f = 8 THEN (IF run > 0 THEN <<ToString(run)>> ELSE <<>>)
  ELSE LET p == bd[SqOf(f, r)] IN
       IF p = 0 THEN RankChars(bd, r, f + 1, run + 1)
       ELSE (IF run > 0 THEN <<ToString(run)>> ELSE <<>>) \o <<PcChar(p)>> \o RankChars(bd, r, f + 1, 0)
RECURSIVE RanksChars(_, _)
RanksChars(bd, r) == RankChars(bd, r, 0, 0) \o (IF r = 0 THEN <<>> ELSE <<"/">> \o RanksChars(bd, r - 1))
CrChars(cr) == IF cr = 0 THEN <<"-">> ELSE
   (IF HasRight(cr, 1) THEN <<"K">> ELSE <<>>) \o (IF HasRight(cr, 2) THEN <<"Q">> ELSE <<>>) \o
   (IF HasRight(cr, 4) THEN <<"k">> ELSE <<>>) \o (IF HasRight(cr, 8) THEN <<"q">> ELSE <<>>)
EpChars(ep) == IF ep = -1 THEN <<"-">> ELSE <<FileChar(File(ep)), ToString(Rank(ep) + 1)>>
FenChars(pos) == RanksChars(pos.bd, 7) \o <<" ", IF pos.stm = 0 THEN "w" ELSE "b", " ">> \o CrChars(pos.cr) \o <<" ">> \o EpChars(pos.ep)
                 \o <<" ">> \o Digits(pos.hm) \o <<" ">> \o Digits(pos.fm)

RECURSIVE Str(_)
Str(cs) == IF cs = <<>> THEN "" ELSE Head(cs) \o Str(Tail(cs))
\* consistency of the two printers (checked by TLC on every base position)
PrintersAgree(pos) == Str(FenChars(pos)) = FenOf(pos)

(***************************** semantic edits *****************************)
Pieces == {1, 2, 3, 4, 5, 9, 10, 11, 12, 13}
SemEdits(pos, Squares) ==
  {[pos EXCEPT !.bd[s] = q] : s \in {x \in Squares : pos.bd[x] # 0 /\ TypeOf(pos.bd[x]) # K}, q \in Pieces}
  \cup {[pos EXCEPT !.stm = 1 - pos.stm, !.ep = -1]}
  \cup {[pos EXCEPT !.cr = c] : c \in {0, pos.cr % 4, (pos.cr \div 4) * 4}}
  \cup {[pos EXCEPT !.ep = -1]}
  \cup {[pos EXCEPT !.hm = h] : h \in {0, 7, 10, 99, 100}}
  \cup {[pos EXCEPT !.fm = n] : n \in {1, 9, 10, 11, 250, 5899}}
\* well-formed for the parser: pawns off the back ranks is NOT required by the parser; keep them all but the ones
\* whose text would not be canonical for another reason (none: every position record prints canonically)

(***************************** syntactic edits *****************************)
Alphabet == <<"p", "n", "b", "r", "q", "k", "P", "N", "B", "R", "Q", "K", "1", "2", "3", "4", "5", "6", "7", "8", "9", "0",
              "/", " ", "w", "-", "a", "c", "d", "e", "f", "g", "h", "x", "@">>       \* "@" = ANY byte (expanded by the replayer)
Truncate(cs, i) == SubSeq(cs, 1, i - 1)
Delete(cs, i) == SubSeq(cs, 1, i - 1) \o SubSeq(cs, i + 1, Len(cs))
Replace(cs, i, c) == [cs EXCEPT ![i] = c]
Insert(cs, i, c) == SubSeq(cs, 1, i - 1) \o <<c>> \o SubSeq(cs, i, Len(cs))

RECURSIVE Fields(_, _, _)
Fields(cs, i, acc) == IF i > Len(cs) THEN <<acc>>
                      ELSE IF cs[i] = " " THEN <<acc>> \o Fields(cs, i + 1, <<>>) ELSE Fields(cs, i + 1, Append(acc, cs[i]))
RECURSIVE Join(_)
Join(fs) == IF Len(fs) = 0 THEN <<>> ELSE IF Len(fs) = 1 THEN fs[1] ELSE fs[1] \o <<" ">> \o Join(Tail(fs))
Nines == [i \in 1..25 |-> "9"]
FieldEdits(cs) ==
  LET fs == Fields(cs, 1, <<>>) n == Len(fs) IN
  {Join(SubSeq(fs, 1, k) \o <<fs[k]>> \o SubSeq(fs, k + 1, n)) : k \in 1..n}                 \* duplicate field k
  \cup {Join(SubSeq(fs, 1, k - 1) \o SubSeq(fs, k + 1, n)) : k \in 1..n}                     \* drop field k
  \cup {Join(SubSeq(fs, 1, k - 1) \o <<fs[k + 1], fs[k]>> \o SubSeq(fs, k + 2, n)) : k \in 1..(n - 1)}   \* swap
  \cup {Join([fs EXCEPT ![k] = Nines]) : k \in {n - 1, n}}                                   \* numerically overflowing counters
  \cup {Join([fs EXCEPT ![k] = fs[k] \o fs[k] \o fs[k] \o fs[k]]) : k \in 1..n}              \* over-long fields
  \cup {cs \o <<" ">>, cs \o <<" ", "m", "o", "v", "e", "s">>, <<" ">> \o cs, cs \o cs}

SynEdits(cs) ==
  {Truncate(cs, i) : i \in 1..Len(cs)}
  \cup {Delete(cs, i) : i \in 1..Len(cs)}
  \cup {Replace(cs, i, Alphabet[a]) : i \in 1..Len(cs), a \in 1..Len(Alphabet)}
  \cup {Insert(cs, i, Alphabet[a]) : i \in 1..(Len(cs) + 1), a \in 1..Len(Alphabet)}
  \cup FieldEdits(cs)
=============================================================================
