---------------------------- MODULE ChessModel ----------------------------
(***************************************************************************)
(* Design-level model of the game of chess for TLC: breadth-first search   *)
(* of the game tree from a set of root positions, checking the invariants  *)
(* that make Chess.tla a sound oracle (C01, C02), and a self-validation of *)
(* the oracle against the published perft reference counts.                *)
(***************************************************************************)
EXTENDS Chess, Json, IOUtils, FiniteSetsExt

Roots == ndJsonDeserialize(IOEnv.ROOTS)          \* "load" events written by the recorder
Shard == atoi(IOEnv.SHARD)
NShards == atoi(IOEnv.NSHARDS)
MaxDepth == atoi(IOEnv.MAXDEPTH)
PerftDepth == atoi(IOEnv.PERFTDEPTH)
Mine == {i \in 1..Len(Roots) : i % NShards = Shard}

VARIABLES pos, depth
vars == <<pos, depth>>

Init == \E i \in Mine : pos = PosOfJson(Roots[i].pos) /\ depth = 0
Next == /\ depth < MaxDepth
        /\ \E m \in Legal(pos) : pos' = Make(pos, m)
        /\ depth' = depth + 1

\* the side that just moved is never left in check
NoKingCapture == ~InCheck(pos.bd, 1 - pos.stm)
\* validity (the quantifier of the properties) is preserved by legal moves
ValidPreserved == Valid(pos)
\* a castling right implies king and rook on their home squares
RightsImplyHome == CastleShapeOK(pos)
\* the en-passant convention of C02: a target is recorded only if a capture is legal
EpMeansCapturable == depth > 0 => EpNormalised(pos)
\* colour symmetry of the rules
MirrorInvolution == Mirror(Mirror(pos)) = pos
MirrorCommutes == {MirrorM(m) : m \in Legal(pos)} = Legal(Mirror(pos))
\* the fast status test agrees with the legal set; pseudo-legal contains legal
StatusConsistent == (Status(pos) = 0) = (Legal(pos) # {})
\* clocks
ClocksSane == pos.hm >= 0 /\ pos.fm >= 1
\* the FEN printer is injective enough: printing distinguishes the fields it prints
KeyIgnoresClocks == Key(pos) = Key([pos EXCEPT !.hm = 0, !.fm = 1])

RECURSIVE Perft(_, _)
Perft(p, d) == IF d = 0 THEN 1 ELSE FoldSet(LAMBDA m, acc : acc + Perft(Make(p, m), d - 1), 0, Legal(p))

\* printed at the end: reference perft counts of this shard's roots
PerftReport == \A i \in Mine : PrintT("PERFT " \o ToString(i) \o " " \o ToString(Perft(PosOfJson(Roots[i].pos), PerftDepth)))
=============================================================================
