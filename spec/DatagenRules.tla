---------------------------- MODULE DatagenRules ----------------------------
(* The adjudication and labelling of tools/datagen/client/client.go as pure   *)
(* operators (shared by the model Datagen.tla and the trace spec).            *)
EXTENDS Integers
\* ---- the code, branch by branch ---------------------------------------
Contains(r, s) == -r <= s /\ s <= r           \* Range.Contains
IsLowerThan(r, s) == r < s                     \* Range.IsLowerThan: the range lies below s
IsHigherThan(r, s) == s < -r                   \* Range.IsHigherThan

InitAdj == [draw |-> 0, win |-> 0, sign |-> 1]

\* one pass of the loop body after the search returned (score, bm # 0) on ply `mc`
\* result: the new counters and whether the loop breaks ("" = goes on)
StepAdj(a, cfg, mc, score) ==
  LET draw == IF cfg.Draw /\ mc >= cfg.DrawAfter /\ Contains(cfg.DrawMargin, score) THEN a.draw + 1 ELSE 0
      ws == IF ~(cfg.Win /\ mc >= cfg.WinAfter) THEN [win |-> a.win, sign |-> a.sign]
            ELSE IF a.win = 0
                 THEN IF IsHigherThan(cfg.WinMargin, score) THEN [win |-> 1, sign |-> a.sign]
                      ELSE IF IsLowerThan(cfg.WinMargin, score) THEN [win |-> 1, sign |-> -1]
                      ELSE [win |-> 0, sign |-> a.sign]
                 ELSE IF IsLowerThan(cfg.WinMargin, a.sign * score) THEN [win |-> a.win + 1, sign |-> -a.sign]
                      ELSE [win |-> 0, sign |-> 1]
  IN IF draw >= cfg.DrawCount THEN [a |-> [draw |-> draw, win |-> a.win, sign |-> a.sign], brk |-> "draw"]
     ELSE [a |-> [draw |-> draw, win |-> ws.win, sign |-> ws.sign], brk |-> IF ws.win >= cfg.WinCount THEN "win" ELSE ""]

\* the label: last score seen from White, stm = side to move of the last searched position (0 = White)
Outcome(cfg, score, stm) ==
  LET w == IF stm = 1 THEN -score ELSE score IN
  IF Contains(cfg.DrawMargin, w) THEN "draw"
  ELSE IF IsLowerThan(cfg.WinMargin, w) THEN "white"
  ELSE IF IsHigherThan(cfg.WinMargin, w) THEN "black"
  ELSE "panic"

=============================================================================
