----------------------------- MODULE TunerSched -----------------------------
(***************************************************************************)
(* The distributed side of the tuner (tools/tuner/server/server.go,        *)
(* epdProcess, and tools/tuner/client/client.go, clientWorker): the server *)
(* cuts every batch into chunks, hands each chunk out as a JOB through a   *)
(* bounded job queue, re-issues a job for a chunk whose deadline passed,   *)
(* collects RESULTS from a bounded result queue, adds a chunk's gradient   *)
(* the first time a result for one of its jobs arrives, and applies the    *)
(* optimiser step when every chunk of the batch is completed.              *)
(*                                                                         *)
(* This continues property C20 ("each training position is processed       *)
(* exactly once per epoch") past the file view: a position contributes to  *)
(* the step of its batch exactly once, whatever the workers do (slow,      *)
(* dead, answering twice, answering a job of an earlier batch).            *)
(*                                                                         *)
(* One action per blocking point of the code:                              *)
(*   server: Schedule (tracker.schedule + bookkeeping), Send (jobQueue <-),*)
(*           Recv / Timeout (the select), Apply (batch completed)          *)
(*   worker: Take (RequestJob), Finish (the gradient loop), Put            *)
(*           (RegisterResult), Die; PutAgain = a retried RegisterResult    *)
(*   time:   Expire(j) - the deadline of job j has passed                  *)
(***************************************************************************)
EXTENDS Naturals, Sequences, FiniteSets

CONSTANTS NChunks,      \* chunks per batch (16 in the code; any n >= 1 for the last batch)
          NBatches,     \* batches explored (the code loops over epochs for ever)
          Workers,      \* worker threads of all clients
          JQ, RQ,       \* queue capacities (JobQueueDepth = 8, ResultQueueDepth = 10)
          MaxJobs,      \* bound on jobs issued per chunk (exploration bound only; > MaxDeaths keeps liveness honest)
          MaxDeaths,    \* how many workers may die
          MaxRetries,   \* how many results may be delivered twice
          Reissue       \* TRUE: as the code; FALSE: no second job for a chunk (shows the re-issue is what liveness rests on)

VARIABLES batch,        \* current batch number, NBatches + 1 when done
          tracker,      \* [chunk -> [completed, jobs]]   jobs: sequence of job ids, in issue order
          expired,      \* job ids whose deadline has passed
          jobQ, resQ,   \* the two channels
          spc, sjob,    \* server program counter and the job it is about to send
          wst, wjob,    \* worker state and job
          grads,        \* [batch -> [chunk -> how many results were added]]
          applied,      \* batches whose optimiser step was taken
          nextId, deaths, retries
vars == <<batch, tracker, expired, jobQ, resQ, spc, sjob, wst, wjob, grads, applied, nextId, deaths, retries>>

Chunk == 1..NChunks
NoJob == [id |-> 0, batch |-> 0, chunk |-> 0]
FreshTracker == [c \in Chunk |-> [completed |-> FALSE, jobs |-> <<>>]]
ToSet(q) == {q[i] : i \in 1..Len(q)}
IssuedNow == UNION {ToSet(tracker[c].jobs) : c \in Chunk}

Init ==
  /\ batch = 1 /\ tracker = FreshTracker /\ expired = {} /\ jobQ = <<>> /\ resQ = <<>>
  /\ spc = "sched" /\ sjob = NoJob
  /\ wst = [w \in Workers |-> "idle"] /\ wjob = [w \in Workers |-> NoJob]
  /\ grads = [b \in 1..NBatches |-> [c \in Chunk |-> 0]] /\ applied = {}
  /\ nextId = 1 /\ deaths = 0 /\ retries = 0

Running == batch <= NBatches
AllCompleted == \A c \in Chunk : tracker[c].completed

(* tracker.schedule(): jobless chunks first, in order; otherwise a not yet  *)
(* completed chunk ALL of whose jobs are past their deadline (the code takes*)
(* the one with the earliest latest-deadline; which one that is depends on  *)
(* the clock, so any of them here).                                         *)
Jobless == {c \in Chunk : tracker[c].jobs = <<>>}
Overdue == {c \in Chunk : ~tracker[c].completed /\ tracker[c].jobs # <<>> /\ ToSet(tracker[c].jobs) \subseteq expired}
Schedulable == IF Jobless # {} THEN {CHOOSE c \in Jobless : \A d \in Jobless : c <= d}
               ELSE IF Reissue THEN {c \in Overdue : Len(tracker[c].jobs) < MaxJobs} ELSE {}

Issue(c) ==
  /\ tracker' = [tracker EXCEPT ![c].jobs = Append(@, nextId)]
  /\ sjob' = [id |-> nextId, batch |-> batch, chunk |-> c]
  /\ nextId' = nextId + 1
  /\ spc' = "send"

Schedule ==
  /\ spc = "sched" /\ Running /\ ~AllCompleted
  /\ IF Schedulable # {}
     THEN \E c \in Schedulable : Issue(c)
     ELSE spc' = "recv" /\ UNCHANGED <<tracker, sjob, nextId>>
  /\ UNCHANGED <<batch, expired, jobQ, resQ, wst, wjob, grads, applied, deaths, retries>>

\* jobQueue <- job: blocks while the queue is full
Send ==
  /\ spc = "send" /\ Len(jobQ) < JQ
  /\ jobQ' = Append(jobQ, sjob) /\ sjob' = NoJob /\ spc' = "recv"
  /\ UNCHANGED <<batch, tracker, expired, resQ, wst, wjob, grads, applied, nextId, deaths, retries>>

\* tracker.match: only the jobs of the CURRENT batch can match
MatchChunk(id) == {c \in Chunk : id \in ToSet(tracker[c].jobs)}

Recv ==
  /\ spc = "recv" /\ resQ # <<>>
  /\ LET id == Head(resQ) mc == MatchChunk(id) IN
       IF mc # {} /\ ~tracker[CHOOSE c \in mc : TRUE].completed
       THEN LET c == CHOOSE c \in mc : TRUE IN
            /\ grads' = [grads EXCEPT ![batch][c] = @ + 1]
            /\ tracker' = [tracker EXCEPT ![c].completed = TRUE]
       ELSE UNCHANGED <<grads, tracker>>
  /\ resQ' = Tail(resQ) /\ spc' = "sched"
  /\ UNCHANGED <<batch, expired, jobQ, sjob, wst, wjob, applied, nextId, deaths, retries>>

\* <-time.After(ClientWaitTime): only when no result is waiting
Timeout ==
  /\ spc = "recv" /\ resQ = <<>> /\ spc' = "sched"
  /\ UNCHANGED <<batch, tracker, expired, jobQ, resQ, sjob, wst, wjob, grads, applied, nextId, deaths, retries>>

\* the batch is completed: optimiser step, next batch with a fresh tracker
Apply ==
  /\ spc = "sched" /\ Running /\ AllCompleted
  /\ applied' = applied \cup {batch} /\ batch' = batch + 1 /\ tracker' = FreshTracker
  /\ UNCHANGED <<expired, jobQ, resQ, spc, sjob, wst, wjob, grads, nextId, deaths, retries>>

Expire(j) ==
  /\ j \in IssuedNow \ expired /\ expired' = expired \cup {j}
  /\ UNCHANGED <<batch, tracker, jobQ, resQ, spc, sjob, wst, wjob, grads, applied, nextId, deaths, retries>>

Take(w) ==
  /\ wst[w] = "idle" /\ jobQ # <<>>
  /\ wjob' = [wjob EXCEPT ![w] = Head(jobQ)] /\ jobQ' = Tail(jobQ) /\ wst' = [wst EXCEPT ![w] = "work"]
  /\ UNCHANGED <<batch, tracker, expired, resQ, spc, sjob, grads, applied, nextId, deaths, retries>>

Finish(w) ==
  /\ wst[w] = "work" /\ wst' = [wst EXCEPT ![w] = "put"]
  /\ UNCHANGED <<batch, tracker, expired, jobQ, resQ, spc, sjob, wjob, grads, applied, nextId, deaths, retries>>

\* resultQueue <- result: blocks while the queue is full
Put(w) ==
  /\ wst[w] = "put" /\ Len(resQ) < RQ
  /\ resQ' = Append(resQ, wjob[w].id)
  /\ \/ wst' = [wst EXCEPT ![w] = "idle"] /\ wjob' = [wjob EXCEPT ![w] = NoJob] /\ UNCHANGED retries
     \/ retries < MaxRetries /\ retries' = retries + 1 /\ UNCHANGED <<wst, wjob>>     \* delivered, but the caller retries
  /\ UNCHANGED <<batch, tracker, expired, jobQ, spc, sjob, grads, applied, nextId, deaths>>

Die(w) ==
  /\ wst[w] # "dead" /\ deaths < MaxDeaths
  /\ wst' = [wst EXCEPT ![w] = "dead"] /\ deaths' = deaths + 1
  /\ UNCHANGED <<batch, tracker, expired, jobQ, resQ, spc, sjob, wjob, grads, applied, nextId, retries>>

Done == ~Running /\ UNCHANGED vars

Server == Schedule \/ Send \/ Recv \/ Timeout \/ Apply
Next == Server \/ (\E j \in 1..(nextId - 1) : Expire(j)) \/ (\E w \in Workers : Take(w) \/ Finish(w) \/ Put(w) \/ Die(w)) \/ Done

Alive(w) == wst[w] # "dead"
Spec == Init /\ [][Next]_vars
FairSpec == /\ Spec /\ WF_vars(Schedule) /\ WF_vars(Send) /\ WF_vars(Recv) /\ WF_vars(Timeout) /\ WF_vars(Apply)
            /\ \A j \in 1..(NBatches * NChunks * MaxJobs) : WF_vars(Expire(j))
            /\ \A w \in Workers : WF_vars(Take(w)) /\ WF_vars(Finish(w)) /\ WF_vars(Put(w))

(******************************* properties ******************************)
TypeOK ==
  /\ batch \in 1..(NBatches + 1) /\ spc \in {"sched", "send", "recv"}
  /\ Len(jobQ) <= JQ /\ Len(resQ) <= RQ
  /\ \A w \in Workers : wst[w] \in {"idle", "work", "put", "dead"}

\* never more than one result counted for a chunk of a batch ...
AtMostOnce == \A b \in 1..NBatches : \A c \in Chunk : grads[b][c] <= 1
\* ... and exactly one for every chunk when the step is taken
ExactlyOnceWhenApplied == \A b \in applied : \A c \in Chunk : grads[b][c] = 1
\* nothing is added to a batch once its step was taken (a late result of an earlier batch is dropped)
NoLateAddition == [][\A b \in applied : grads'[b] = grads[b]]_vars
\* the tracker and the counts agree
TrackerAgrees == Running => \A c \in Chunk : tracker[c].completed <=> grads[batch][c] = 1
\* batches are taken in order
InOrder == applied = 1..(batch - 1)

\* with one worker that keeps answering, every batch is eventually completed
Completes == <>(~Running)
=============================================================================
