---------------------------- MODULE AttackTrace ----------------------------
(***************************************************************************)
(* C12: every entry of the engine's attack tables, dumped by rec-attacks,  *)
(* is recomputed here by ray walking / coordinate arithmetic (Geometry.tla) *)
(* and compared as a set of squares.  Events are consumed in batches to    *)
(* keep the number of TLC states small.                                    *)
(***************************************************************************)
EXTENDS Geometry, Json, IOUtils, TLC

Trace == ndJsonDeserialize(IOEnv.TRACE)
Batch == 64
VARIABLE l
ToSet(s) == {s[i] : i \in 1..Len(s)}

Want(ev) ==
  CASE ev.k = "rook" -> RookAtt(ev.sq, ToSet(ev.occ))
    [] ev.k = "bishop" -> BishopAtt(ev.sq, ToSet(ev.occ))
    [] ev.k = "king" -> KingT[ev.sq]
    [] ev.k = "knight" -> KnightT[ev.sq]
    [] ev.k = "pcap" -> UNION {PawnAttT[ev.c][s] : s \in ToSet(ev.occ)}
    [] ev.k = "ppush" -> UNION {PawnPushT[ev.c][s] : s \in ToSet(ev.occ)}
    [] ev.k = "between" -> Between(ev.sq, ev.sq2)
\* the in-between table is compared with both end squares disregarded
Got(ev) == IF ev.k = "between" THEN ToSet(ev.res) \ {ev.sq, ev.sq2} ELSE ToSet(ev.res)

\* the exhaustive class must really consist of subsets of the geometric mask (recorder contract)
ClassOK(ev) == ev.cls # "mask" \/ ToSet(ev.occ) \subseteq (IF ev.k = "rook" THEN RookMask(ev.sq) ELSE BishopMask(ev.sq))

Judge(i) ==
  LET ev == Trace[i] IN
  /\ IF ClassOK(ev) THEN TRUE ELSE PrintT("MM " \o ToJson([l |-> i, t |-> 0, rule |-> "INFRA/not-a-mask-subset", class |-> "", detail |-> [k |-> ev.k, sq |-> ev.sq]]))
  /\ IF Got(ev) = Want(ev) THEN TRUE
     ELSE PrintT("MM " \o ToJson([l |-> i, t |-> 0, rule |-> "C12/" \o ev.k, class |-> "",
                  detail |-> [sq |-> ev.sq, sq2 |-> ev.sq2, c |-> ev.c, occ |-> ev.occ, missing |-> Want(ev) \ Got(ev), extra |-> Got(ev) \ Want(ev)]]))

TInit == l = 1
TNext == /\ l <= Len(Trace)
         /\ \A i \in l..(IF l + Batch - 1 < Len(Trace) THEN l + Batch - 1 ELSE Len(Trace)) : Judge(i)
         /\ l' = l + Batch

\* design-level obligations, evaluated once per run as ASSUME-style constants
Lemmas == MaskLemma /\ OffRayLemma
MaskSizes == [s \in Sq |-> <<Cardinality(RookMask(s)), Cardinality(BishopMask(s))>>]
Done == /\ TLCGet("stats").diameter >= 0
        /\ PrintT("DONE " \o ToString(Len(Trace)) \o " " \o ToString(Len(Trace)))
        /\ PrintT("MASKS " \o ToJson(MaskSizes))
        /\ IF "LEMMAS" \in DOMAIN IOEnv /\ IOEnv.LEMMAS = "1" THEN PrintT("LEMMAS " \o ToString(Lemmas)) ELSE TRUE
=============================================================================
