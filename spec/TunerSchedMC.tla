---------------------------- MODULE TunerSchedMC ----------------------------
EXTENDS TunerSched, TLC
CONSTANTS w1, w2, w3
W2 == {w1, w2}
W3 == {w1, w2, w3}
Symm == Permutations(W3)
=============================================================================
