--------------------------------- MODULE PV ---------------------------------
(***************************************************************************)
(* The principal-variation buffer of search/pv.go (mechanism behind C07):  *)
(* one flat array in which the line of ply p occupies the segment starting *)
(* at BufIx(p) of capacity MaxPlies - p ("triangular" table), with         *)
(*   setNull(p)    line of ply p := <<>>                                   *)
(*   insert(p, m)  line of ply p := <<m>> \o line of ply p+1               *)
(* The abstract state is simply one sequence per ply.  TLC checks for a    *)
(* small MaxPlies that the flat implementation refines the abstract one    *)
(* for every sequence of operations, that the segments tile the buffer     *)
(* exactly, and that a line never outgrows its segment.                    *)
(***************************************************************************)
EXTENDS Integers, Sequences, TLC

CONSTANTS MaxPlies, Moves, MaxOps, NoMove

BufIx(p) == p * MaxPlies - (p * (p - 1)) \div 2
BufLen == (MaxPlies * (MaxPlies + 1)) \div 2
\* the segments tile the buffer
Tiling == /\ BufIx(0) = 0
          /\ \A p \in 0..(MaxPlies - 2) : BufIx(p + 1) = BufIx(p) + (MaxPlies - p)
          /\ BufIx(MaxPlies - 1) + 1 = BufLen

VARIABLES buf, depth,     \* the code's state: flat array and per-ply lengths
          pvs,            \* the abstract state: one line per ply
          ops
pvars == <<buf, depth, pvs, ops>>

Init == /\ buf = [i \in 0..(BufLen - 1) |-> NoMove] /\ depth = [p \in 0..(MaxPlies - 1) |-> 0]
        /\ pvs = [p \in 0..(MaxPlies - 1) |-> <<>>] /\ ops = 0

SetNull(p) == /\ depth' = [depth EXCEPT ![p] = 0] /\ buf' = buf
              /\ pvs' = [pvs EXCEPT ![p] = <<>>]
\* insert is only used below the last ply (the search drops into quiescence at MaxPlies - 1)
Insert(p, m) ==
  LET i == BufIx(p) j == BufIx(p + 1) n == depth[p + 1] IN
  /\ buf' = [x \in 0..(BufLen - 1) |-> IF x = i THEN m ELSE IF x > i /\ x <= i + n THEN buf[j + (x - i - 1)] ELSE buf[x]]
  /\ depth' = [depth EXCEPT ![p] = n + 1]
  /\ pvs' = [pvs EXCEPT ![p] = <<m>> \o pvs[p + 1]]

Next == /\ ops < MaxOps /\ ops' = ops + 1
        /\ \/ \E p \in 0..(MaxPlies - 1) : SetNull(p)
           \/ \E p \in 0..(MaxPlies - 2), m \in Moves : Insert(p, m)

Line(p) == [k \in 1..depth[p] |-> buf[BufIx(p) + k - 1]]
Refines == \A p \in 0..(MaxPlies - 1) : Line(p) = pvs[p]
Fits == \A p \in 0..(MaxPlies - 1) : depth[p] <= MaxPlies - p
TilingInv == Tiling
=============================================================================
