----------------------------- MODULE ReproTrace -----------------------------
(***************************************************************************)
(* C08: reproducibility.  Whole games are played by separate engine        *)
(* instances: A with soft node limits, C and D repeating A's requests      *)
(* concurrently under load, B with HARD budgets equal to the node counts A *)
(* reported.  Per search the recorder logs the reported lines (time field  *)
(* removed; lines of completed iterations and abort lines separately), the *)
(* result (score, move, ponder), the final node count and a digest of the  *)
(* state left behind (transposition table, history stores, generation).    *)
(* Search.tla explains why B may add exactly one abort line: the iteration *)
(* after A's last one aborts at its first node, before any store.          *)
(***************************************************************************)
EXTENDS Integers, Sequences, Json, IOUtils, TLC

Trace == ndJsonDeserialize(IOEnv.TRACE)
VARIABLES l, g
Empty == [A |-> <<>>, B |-> <<>>, C |-> <<>>, D |-> <<>>]
MM(ev, rule, detail) == PrintT("MM " \o ToJson([l |-> l, t |-> ev.t, rule |-> rule, class |-> "", detail |-> detail]))
Expect(c, ev, rule, detail) == IF c THEN TRUE ELSE MM(ev, rule, detail)

Rec(ev) == [lines |-> ev.lines, aborts |-> ev.aborts, best |-> ev.best, nodes |-> ev.nodes, digest |-> ev.digest, hard |-> ev.hard]
Same(x, y) == x.lines = y.lines /\ x.aborts = y.aborts /\ x.best = y.best /\ x.nodes = y.nodes /\ x.digest = y.digest

TSearch ==
  /\ l <= Len(Trace) /\ Trace[l].ev = "gsearch" /\ l' = l + 1
  /\ LET ev == Trace[l] IN
       /\ Expect(ev.hard = -1 \/ ev.nodes <= ev.hard, ev, "C08/over-budget", [nodes |-> ev.nodes, hard |-> ev.hard, ply |-> ev.ply])
       /\ g' = [g EXCEPT ![ev.role] = Append(@, Rec(ev))]

TEnd ==
  /\ l <= Len(Trace) /\ Trace[l].ev = "gend" /\ l' = l + 1
  /\ LET ev == Trace[l] n == Len(g.A) IN
       /\ Expect(Len(g.C) = n /\ Len(g.D) = n /\ \A i \in 1..n : Same(g.A[i], g.C[i]) /\ Same(g.A[i], g.D[i]), ev, "C08/same-request-different-answer",
                 [fen |-> ev.fen, first |-> IF Len(g.C) = n /\ Len(g.D) = n THEN CHOOSE i \in 1..(n + 1) : i = n + 1 \/ ~(Same(g.A[i], g.C[i]) /\ Same(g.A[i], g.D[i])) ELSE 0])
       /\ Expect(Len(g.B) = n /\ \A i \in 1..n :
                    /\ g.B[i].best = g.A[i].best /\ g.B[i].nodes = g.A[i].nodes /\ g.B[i].digest = g.A[i].digest
                    /\ g.B[i].lines = g.A[i].lines
                    /\ Len(g.B[i].aborts) <= 1,
                 ev, "C08/hard-budget-does-not-reproduce-soft-limit",
                 [fen |-> ev.fen, plies |-> n, first |-> IF Len(g.B) = n THEN CHOOSE i \in 1..(n + 1) : i = n + 1 \/ ~(g.B[i].best = g.A[i].best /\ g.B[i].nodes = g.A[i].nodes /\ g.B[i].digest = g.A[i].digest /\ g.B[i].lines = g.A[i].lines) ELSE 0])
  /\ g' = Empty

\* the same request through a fresh driver ("ref") and through one with a past before ucinewgame ("hist")
TUSession ==
  /\ l <= Len(Trace) /\ Trace[l].ev = "usession" /\ l' = l + 1
  /\ g' = [g EXCEPT ![IF Trace[l].role = "ref" THEN "A" ELSE "C"] = Append(@, [lines |-> Trace[l].lines, best |-> Trace[l].best])]
TUEnd ==
  /\ l <= Len(Trace) /\ Trace[l].ev = "uend" /\ l' = l + 1
  /\ LET ev == Trace[l] IN
       Expect(Len(g.A) = 1 /\ Len(g.C) = 1 /\ g.A[1] = g.C[1], ev, "C08/same-request-different-answer",
              [fen |-> ev.fen, request |-> ev.args, before |-> ev.msg, fresh |-> IF Len(g.A) = 1 THEN g.A[1].best ELSE "", withPast |-> IF Len(g.C) = 1 THEN g.C[1].best ELSE ""])
  /\ g' = Empty

TPanic == /\ l <= Len(Trace) /\ Trace[l].ev = "panic" /\ l' = l + 1 /\ MM(Trace[l], IF Trace[l].engine THEN "PANIC/engine" ELSE "INFRA/recorder-panic", [msg |-> Trace[l].msg]) /\ UNCHANGED g
TInit == l = 1 /\ g = Empty
TNext == TSearch \/ TEnd \/ TUSession \/ TUEnd \/ TPanic
Done == PrintT("DONE " \o ToString(TLCGet("stats").diameter - 1) \o " " \o ToString(Len(Trace)))
=============================================================================
