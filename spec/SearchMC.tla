------------------------------ MODULE SearchMC ------------------------------
(* Model-checking instance of Search.tla: every hard budget 0..7 (each one abort point), no budget,
   soft limits, stop arriving at any step, final / drawn / ordinary roots. *)
EXTENDS Search
HardsMC == {-1, 0, 1, 2, 3, 4, 5, 6, 7}
SoftsMC == {-1, 2}
=============================================================================
