------------------------------- MODULE FenGen -------------------------------
(* TLC as the generator of FEN test inputs (model -> implementation): for every base position (load events
   written by the recorder) print the canonical text, the texts of all semantic edits together with the position
   they denote, and all single syntactic edits. *)
EXTENDS Fen, Json, IOUtils
Roots == ndJsonDeserialize(IOEnv.ROOTS)
Shard == atoi(IOEnv.SHARD)
NShards == atoi(IOEnv.NSHARDS)
SynEvery == atoi(IOEnv.SYNEVERY)      \* syntactic edits for every SynEvery-th base only (they are numerous)
Mine == {i \in 1..Len(Roots) : i % NShards = Shard}
VARIABLE done

PosJson(p) == [bd |-> [i \in 1..64 |-> p.bd[i - 1]], stm |-> p.stm, cr |-> p.cr, ep |-> p.ep, hm |-> p.hm, fm |-> p.fm]
EmitCanon(i, p) == PrintT("C " \o ToJson([base |-> i, s |-> Str(FenChars(p)), pos |-> PosJson(p)]))
EmitSyn(i, cs) == PrintT("S " \o ToJson([base |-> i, s |-> Str(cs)]))
SomeSquares == {0, 4, 7, 12, 27, 28, 35, 36, 51, 59, 60, 63}

Gen(i) ==
  LET p == PosOfJson(Roots[i].pos) cs == FenChars(p) IN
  /\ Assert(PrintersAgree(p), <<"the two FEN printers disagree", i>>)
  /\ EmitCanon(i, p)
  /\ \A q \in SemEdits(p, SomeSquares) : EmitCanon(i, q)
  /\ IF i % SynEvery = 0 THEN \A e \in SynEdits(cs) : EmitSyn(i, e) ELSE TRUE

Init == done = FALSE
Next == ~done /\ done' = TRUE /\ \A i \in Mine : Gen(i)
=============================================================================
