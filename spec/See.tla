-------------------------------- MODULE See --------------------------------
(***************************************************************************)
(* C18: the capture-sequence minimax that heur.SEE approximates, as a      *)
(* recursive definition.  Both sides capture alternately on the            *)
(* destination square with a LEAST valuable attacker, may stop at any      *)
(* point, x-ray attackers join as lines open (occupancy shrinks), the king *)
(* captures only when no enemy attacker remains, pins and promotions by    *)
(* recapturing pawns are ignored.  Where several least-valuable attackers  *)
(* exist (knight/bishop, or equal pieces on different squares) the result  *)
(* may depend on the choice: Balances returns the SET of achievable        *)
(* balances and the implementation must agree with one of them for all     *)
(* thresholds at once.                                                     *)
(***************************************************************************)
EXTENDS Chess

PieceVal == <<100, 300, 300, 500, 900, 10000>>
ValOf(pc) == PieceVal[TypeOf(pc)]

\* first square of occ met when walking from s in direction d, or -1
FirstIn(occ, s, d) ==
  LET ray == RayT[s][d] k == FirstOccIn(occ, ray, 1) IN IF k > Len(ray) THEN -1 ELSE ray[k]

\* squares of colour `side` (among the still present pieces occ) that attack `to`
AttackersOf(bd, to, occ, side) ==
  LET own(s) == s \in occ /\ s # to /\ bd[s] # 0 /\ ColorOf(bd[s]) = side IN
  {s \in KnightT[to] : own(s) /\ TypeOf(bd[s]) = N}
  \cup {s \in KingT[to] : own(s) /\ TypeOf(bd[s]) = K}
  \cup {s \in PawnAttT[1 - side][to] : own(s) /\ TypeOf(bd[s]) = P}
  \cup {s \in {FirstIn(occ \ {to}, to, d) : d \in RookDirs} : s # -1 /\ own(s) /\ TypeOf(bd[s]) \in {R, Q}}
  \cup {s \in {FirstIn(occ \ {to}, to, d) : d \in BishopDirs} : s # -1 /\ own(s) /\ TypeOf(bd[s]) \in {B, Q}}

MinOf(S) == CHOOSE x \in S : \A y \in S : x <= y

\* set of values the side to move can secure when a piece worth onSq stands on `to`
RECURSIVE Exchange(_, _, _, _, _)
Exchange(bd, to, occ, side, onSq) ==
  LET atts == AttackersOf(bd, to, occ, side) IN
  IF atts = {} THEN {0}
  ELSE LET least == MinOf({ValOf(bd[a]) : a \in atts})
           cands == {a \in atts : ValOf(bd[a]) = least}
       IN UNION {
            IF TypeOf(bd[a]) = K /\ AttackersOf(bd, to, occ, 1 - side) # {}
            THEN {0}                                     \* the king may not capture into an attack
            ELSE {Max(0, onSq - sub) : sub \in Exchange(bd, to, occ \ {a}, 1 - side, ValOf(bd[a]))}
          : a \in cands}

\* achievable material balances of playing move m in pos
Balances(pos, m) ==
  LET bd == pos.bd
      csq == CapSq(pos, m)
      gain0 == IF bd[csq] = 0 THEN 0 ELSE ValOf(bd[csq])
      promo == IF m.pr # 0 THEN PieceVal[m.pr] - PieceVal[P] ELSE 0
      on == IF m.pr # 0 THEN PieceVal[m.pr] ELSE ValOf(bd[m.f])
      occ0 == ((Occ(bd) \ {m.f}) \ (IF IsEP(pos, m) THEN {csq} ELSE {})) \cup {m.t}
  IN {gain0 + promo - sub : sub \in Exchange(bd, m.t, occ0, 1 - pos.stm, on)}
=============================================================================
