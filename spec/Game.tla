------------------------------- MODULE Game -------------------------------
(***************************************************************************)
(* The board object as a state machine, shaped like board/board.go: a      *)
(* current position, the history of the game since the last FEN load (one  *)
(* entry per ply: repetition key + the hash the implementation reported),  *)
(* and the stack of makes that have not been undone.  One action per       *)
(* public operation: LoadFEN, MakeMove, MakeNull, Undo.                    *)
(*                                                                         *)
(* The actions take the successor state as a parameter so that the same    *)
(* actions serve the design-level model (GameModel.tla supplies the        *)
(* successor computed by the code-shaped algorithm) and trace validation   *)
(* (GameTrace.tla supplies the logged state after comparing it with        *)
(* Chess!Make).                                                            *)
(***************************************************************************)
EXTENDS Chess

VARIABLES pos,    \* current position (record of Chess.tla)
          hist,   \* sequence of [k |-> Key, h |-> hash] since the last load, current position last
          stack,  \* un-undone makes: [kind |-> "move"|"null", m |-> move, before |-> snapshot, n |-> Len(hist) before]
          snap    \* snapshot of the current state as last observed (what an undo has to restore)
gvars == <<pos, hist, stack, snap>>

NoSnap == [p |-> <<>>, hash |-> "", hashes |-> <<>>]
GInit == pos = StartPos /\ hist = <<>> /\ stack = <<>> /\ snap = NoSnap

LoadFEN(p, h, newSnap) ==
  /\ pos' = p
  /\ hist' = <<[k |-> Key(p), h |-> h]>>
  /\ stack' = <<>>
  /\ snap' = newSnap

Push(kind, m, newSnap, p, entry) ==
  /\ stack' = Append(stack, [kind |-> kind, m |-> m, before |-> snap, bpos |-> pos, n |-> Len(hist)])
  /\ pos' = p
  /\ hist' = Append(hist, entry)
  /\ snap' = newSnap

MakeMove(m, p, newSnap, entry) == Push("move", m, newSnap, p, entry)
MakeNull(p, newSnap, entry) == Push("null", Mv(0, 0, 0), newSnap, p, entry)

\* pops the stack; observed is the position the implementation shows afterwards (normally top.bpos)
Undo(observed) ==
  /\ stack # <<>>
  /\ LET top == stack[Len(stack)] IN
       /\ pos' = observed
       /\ hist' = SubSeq(hist, 1, top.n)
       /\ snap' = top.before
       /\ stack' = SubSeq(stack, 1, Len(stack) - 1)

=============================================================================
