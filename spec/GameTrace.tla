---------------------------- MODULE GameTrace ----------------------------
(***************************************************************************)
(* Trace specification for the board object (properties C01-C05, C09, C10, *)
(* the round-trip half of C11): validates ndjson traces recorded from the  *)
(* real chess-3 board package against Game.tla's actions.                  *)
(*                                                                         *)
(* One TLC state per trace line.  Every action consumes its line; an       *)
(* observation that the specification does not allow is reported as a      *)
(* "MM " line (JSON) and the specification re-synchronises on the logged   *)
(* position so that the rest of the trace is still judged.  The check      *)
(* driver turns MM lines into replay files; a trace that cannot be         *)
(* consumed to the end (recorder contract broken) is an infrastructure     *)
(* failure, not a violation.                                               *)
(***************************************************************************)
EXTENDS Game, Json, IOUtils

Trace == ndJsonDeserialize(IOEnv.TRACE)

VARIABLES l,       \* next trace line
          rootBad, \* the current root was loaded with an en-passant target that is not capturable
          lost     \* the implementation has left the game of chess (it played a move the rules do not know and its
                   \* position is no longer a valid one): already reported; nothing more is judged until the next load
tvars == <<gvars, l, rootBad, lost>>

Has(ev, f) == f \in DOMAIN ev
ToSet(s) == {s[i] : i \in 1..Len(s)}
NoDup(s) == Cardinality(ToSet(s)) = Len(s)

Report(ev, rule, class, detail) ==
  PrintT("MM " \o ToJson([l |-> l, t |-> ev.t, rule |-> rule, class |-> class, detail |-> detail]))
\* evaluates to TRUE always; prints when cond is FALSE
Expect(cond, ev, rule, class, detail) == IF cond THEN TRUE ELSE Report(ev, rule, class, detail)

(***************************************************************************)
(* Observations that can be attached to any event; p is the specification's *)
(* position after the event, h the key history (including p).              *)
(***************************************************************************)
LegalEnc(p) == {EncM(m) : m \in Legal(p)}
PseudoEnc(p) == {EncM(m) : m \in Pseudo(p)}

ObsLegal(ev, p) ==
  IF ~Has(ev, "legal") THEN TRUE ELSE
    LET want == LegalEnc(p) got == ToSet(ev.legal) IN
    /\ Expect(got = want, ev, "C01/legal-set", "",
              [missing |-> want \ got, extra |-> got \ want, fen |-> FenOf(p)])
    /\ Expect(NoDup(ev.legal), ev, "C01/duplicate", "", [fen |-> FenOf(p)])

ObsPseudo(ev, p) ==
  IF ~Has(ev, "gen") THEN TRUE ELSE
    LET want == PseudoEnc(p) gen == ToSet(ev.gen) acc == ToSet(ev.acc) IN
    /\ Expect(acc = gen, ev, "C05/accept-vs-generate", "",
              [acceptedNotGenerated |-> acc \ gen, generatedNotAccepted |-> gen \ acc, fen |-> FenOf(p)])
    /\ Expect(gen = want /\ NoDup(ev.gen), ev, "C05/generate-vs-spec", "",
              [missing |-> want \ gen, extra |-> gen \ want, fen |-> FenOf(p)])

\* precondition of C09: the en-passant target is recorded only when a capture is legal
ObsStatus(ev, p) ==
  IF ~EpNormalised(p) THEN TRUE ELSE
  /\ IF ~Has(ev, "mate") THEN TRUE ELSE Expect(ev.mate = (Status(p) = 1), ev, "C09/checkmate", "", [fen |-> FenOf(p), status |-> Status(p)])
  /\ IF ~Has(ev, "stale") THEN TRUE ELSE Expect(ev.stale = (Status(p) = 2), ev, "C09/stalemate", "", [fen |-> FenOf(p), status |-> Status(p)])
  /\ IF ~Has(ev, "chk") THEN TRUE ELSE Expect(ev.chk = InCheck(p.bd, p.stm), ev, "C09/incheck", "", [fen |-> FenOf(p)])

ObsRep(ev, p, h) ==
  IF ~Has(ev, "rep") THEN TRUE ELSE
    LET want == RepCount(h)
        \* known finding F4: only the root entry is missed, and the root carried a dead en-passant target
        woRoot == Min(3, Cardinality({i \in 2..Len(h) : h[i].k = h[Len(h)].k}))
        class == IF rootBad /\ want - ev.rep = 1 /\ woRoot = ev.rep /\ h[1].k = h[Len(h)].k
                 THEN "rep/root-ep-not-capturable" ELSE ""
    IN /\ Expect(ev.rep = want, ev, "C10/repetition-count", class, [want |-> want, got |-> ev.rep, plies |-> Len(h) - 1])
       /\ IF ~Has(ev, "scan") THEN TRUE ELSE Expect(ev.rep = ScanCount(h), ev, "C10/scan-model", class, [scan |-> ScanCount(h), got |-> ev.rep])

\* hash observations: incremental = scratch, redundant placements, key <-> hash within this game
ObsHash(ev, p, h) ==
  /\ IF ~Has(ev, "scratch") THEN TRUE ELSE Expect(ev.hash = ev.scratch, ev, "C04/hash-vs-scratch", "", [fen |-> FenOf(p)])
  /\ IF ~Has(ev, "pl2") THEN TRUE ELSE Expect(ev.pl2 = ev.pos.bd /\ ev.pl3 = ev.pos.bd, ev, "C04/placements-disagree", "", [fen |-> FenOf(p)])
  /\ IF ~Has(ev, "fenText") THEN TRUE ELSE Expect(ev.fenText = FenOf(PosOfJson(ev.pos)), ev, "C11/fen-print", "", [want |-> FenOf(PosOfJson(ev.pos)), got |-> ev.fenText])
  /\ IF ~Has(ev, "hash") \/ ~Has(ev, "khash") THEN TRUE ELSE
       LET n == Len(h) IN
       \A i \in 1..(n - 1) :
          \* C04 speaks about positions reached by move orders: a ROOT that was loaded with an en-passant target nobody
          \* can capture (the engine hashes the file, F4) was not reached by a move; that comparison is a note only
          Expect((h[i].k = h[n].k) = (h[i].h = h[n].h), ev,
                 IF rootBad /\ i = 1 THEN "X/root-with-a-dead-target-is-hashed-with-it" ELSE "C04/key-hash-consistency",
                 IF rootBad /\ i = 1 THEN "hash/root-ep-not-capturable" ELSE "", [i |-> i, n |-> n])

Obs(ev, p, h) == ObsLegal(ev, p) /\ ObsPseudo(ev, p) /\ ObsStatus(ev, p) /\ ObsRep(ev, p, h) /\ ObsHash(ev, p, h)

HashOf(ev) == IF Has(ev, "hash") THEN ev.hash ELSE ""
Entry(p, ev) == [k |-> Key(p), h |-> HashOf(ev)]
SnapOf(ev) == [p |-> ev.pos, hash |-> HashOf(ev), hashes |-> IF Has(ev, "hashes") THEN ev.hashes ELSE <<>>]

(***************************************************************************)
(* Actions                                                                 *)
(***************************************************************************)
IsEvent(e) == l <= Len(Trace) /\ Trace[l].ev = e /\ l' = l + 1

\* LoadFEN: a new game (TraceReset).  The logged projection must be the position the FEN text denotes
\* (judged by the specification's own printer) and must be valid - otherwise the recorder is broken.
TLoad ==
  /\ IsEvent("load")
  /\ LET ev == Trace[l]
         got == PosOfJson(ev.pos)
         \* the root is what the FEN text MEANS (the harness's own reading of it, checked against the spec's printer),
         \* not what the implementation made of it: a misread root is an observation (C11) and the game goes on
         \* from the position the text denotes
         p == IF Has(ev, "want") THEN PosOfJson(ev.want) ELSE got
     IN
       /\ Expect(FenOf(p) = ev.fen, ev, IF Has(ev, "want") THEN "INFRA/harness-fen-reading" ELSE IF Has(ev, "canon") THEN "C11/fen-parse" ELSE "INFRA/fen-projection", "", [fen |-> ev.fen, projected |-> FenOf(p)])
       /\ Expect(got = p, ev, "C11/fen-parse", "", [fen |-> ev.fen, projected |-> FenOf(got)])
       /\ Expect(Valid(p), ev, "INFRA/invalid-root", "", [fen |-> ev.fen])
       /\ LoadFEN(p, HashOf(ev), SnapOf(ev))
       /\ rootBad' = ~EpNormalised(p)
       /\ lost' = FALSE
       /\ Obs(ev, p, <<Entry(p, ev)>>)

Int8(x) == ((x + 128) % 256) - 128
\* successor comparison, field by field, with the known-finding classification of the int8 clock
SuccOK(ev, want) ==
  LET got == PosOfJson(ev.pos)
      others == got.bd = want.bd /\ got.stm = want.stm /\ got.cr = want.cr /\ got.ep = want.ep /\ got.fm = want.fm
      \* known finding F5: the clock is kept in 8 signed bits
      class == IF others /\ want.hm >= 128 /\ got.hm = Int8(want.hm) THEN "clock/int8-wrap" ELSE ""
  IN /\ Expect(got.bd = want.bd, ev, "C02/placement", "", [want |-> FenOf(want), got |-> FenOf(got)])
     /\ Expect(got.stm = want.stm, ev, "C02/side-to-move", "", [want |-> want.stm, got |-> got.stm])
     /\ Expect(got.cr = want.cr, ev, "C02/castling-rights", "", [want |-> FenOf(want), got |-> FenOf(got)])
     /\ Expect(got.ep = want.ep, ev, "C02/en-passant-target", "", [want |-> FenOf(want), got |-> FenOf(got)])
     /\ Expect(got.hm = want.hm, ev, "C02/halfmove-clock", class, [want |-> want.hm, got |-> got.hm])
     /\ Expect(got.fm = want.fm, ev, "C02/fullmove-number", "", [want |-> want.fm, got |-> got.fm])

TMake ==
  /\ IsEvent("make")
  /\ LET ev == Trace[l] m == DecM(ev.m) got == PosOfJson(ev.pos) IN
       \* every move in a trace comes from the engine's own generator: one the engine treats as playable
       \* (no "illegal" mark) must be legal, one it makes-and-undoes as illegal must be pseudo-legal but illegal
       /\ IF m \in Pseudo(pos) /\ LegalM(pos, m)
          THEN LET want == Make(pos, m) IN
               /\ Expect(~Has(ev, "illegal"), ev, "C01/legal-move-rejected", "", [m |-> ev.m, fen |-> FenOf(pos)])
               /\ SuccOK(ev, want)
               \* the specification keeps ITS OWN successor: every later observation is judged against the
               \* position the rules prescribe, not against whatever the implementation has drifted to
               /\ MakeMove(m, want, SnapOf(ev), Entry(want, ev))
               /\ Obs(ev, want, hist')
               \* the hash counts an en-passant target exactly when a capture is legal (C04: hash is a function of the key)
               /\ IF ~Has(ev, "scrNo") THEN TRUE
                  ELSE IF want.ep = -1
                       THEN Expect(ev.hash = ev.scrNo, ev, "C04/hash-counts-an-en-passant-target-that-cannot-be-captured", "", [fen |-> FenOf(want), m |-> ev.m])
                       ELSE Expect(~Has(ev, "scrWith") \/ ev.hash = ev.scrWith, ev, "C04/hash-misses-a-capturable-en-passant-target", "", [fen |-> FenOf(want), m |-> ev.m])
               /\ lost' = lost
          ELSE \* pseudo-legal but illegal (the search makes and immediately undoes these): only the undo is judged
               /\ Expect(Has(ev, "illegal"), ev, "C01/illegal-move-played", "", [m |-> ev.m, fen |-> FenOf(pos)])
               /\ Expect(m \in Pseudo(pos), ev, "C05/generated-move-not-pseudo-legal", "", [m |-> ev.m, fen |-> FenOf(pos)])
               /\ MakeMove(m, got, SnapOf(ev), [k |-> <<>>, h |-> HashOf(ev)])
               /\ lost' = (lost \/ (~Has(ev, "illegal") /\ ~Valid(got)))
  /\ UNCHANGED rootBad

TNullMake ==
  /\ IsEvent("nullmake")
  /\ LET ev == Trace[l] got == PosOfJson(ev.pos) want == NullMake(pos) IN
       /\ Expect(~InCheck(pos.bd, pos.stm), ev, "INFRA/null-move-in-check", "", [fen |-> FenOf(pos)])
       \* (not part of a listed property; reported as a note) a null move flips the side and clears the target
       /\ Expect([got EXCEPT !.hm = 0] = [want EXCEPT !.hm = 0], ev, "X/null-successor", "", [want |-> FenOf(want), got |-> FenOf(got)])
       /\ MakeNull(want, SnapOf(ev), Entry(want, ev))
       /\ ObsHash(ev, want, hist')
  /\ UNCHANGED <<rootBad, lost>>

\* UndoMove / UndoNullMove: pops the specification's stack; the logged snapshot (position, both counters,
\* current hash and the entire hash history) must equal the snapshot logged before the matching make.
TUndo(kind) ==
  /\ IsEvent(kind)
  /\ LET ev == Trace[l] IN
       /\ Expect(stack # <<>>, ev, "INFRA/undo-without-make", "", [l |-> l])
       /\ stack # <<>>
       /\ LET top == stack[Len(stack)] got == SnapOf(ev) IN
            /\ Expect((kind = "undo") = (top.kind = "move"), ev, "C03/undo-kind-mismatch", "", [top |-> top.kind])
            /\ Expect(kind # "undo" \/ ev.m = EncM(top.m), ev, "C03/undo-other-move", "", [made |-> EncM(top.m), undone |-> ev.m])
            /\ Expect(got.p = top.before.p, ev, "C03/position-not-restored", "",
                      [want |-> FenOf(PosOfJson(top.before.p)), got |-> FenOf(PosOfJson(got.p)), m |-> EncM(top.m)])
            /\ Expect(got.hash = top.before.hash, ev, "C03/hash-not-restored", "", [m |-> EncM(top.m)])
            /\ Expect(got.hashes = top.before.hashes, ev, "C03/hash-history-not-restored", "", [m |-> EncM(top.m), want |-> Len(top.before.hashes), got |-> Len(got.hashes)])
            /\ Undo(top.bpos)
            /\ ObsHash(ev, pos', hist')
  /\ UNCHANGED <<rootBad, lost>>

\* Transposition pair (C04): two move orders from one root.  The specification decides whether they reach
\* the same key; the hashes must agree exactly then.  Move 0 is the null move.
RECURSIVE Play(_, _, _)
Play(p, ms, i) == IF i > Len(ms) THEN p
                  ELSE Play(IF ms[i] = 0 THEN NullMake(p) ELSE Make(p, DecM(ms[i])), ms, i + 1)
RECURSIVE LinePlayable(_, _, _)
LinePlayable(p, ms, i) == i > Len(ms) \/
   IF ms[i] = 0 THEN ~InCheck(p.bd, p.stm) /\ LinePlayable(NullMake(p), ms, i + 1)
   ELSE DecM(ms[i]) \in Legal(p) /\ LinePlayable(Make(p, DecM(ms[i])), ms, i + 1)
TTransp ==
  /\ IsEvent("transp")
  /\ LET ev == Trace[l] root == PosOfJson(ev.root) IN
       /\ Expect(Valid(root) /\ LinePlayable(root, ev.ma, 1) /\ LinePlayable(root, ev.mb, 1), ev, "INFRA/transp-lines", "", [fen |-> FenOf(root)])
       /\ LET pa == Play(root, ev.ma, 1) pb == Play(root, ev.mb, 1) IN
            Expect((Key(pa) = Key(pb)) = (ev.ha = ev.hb), ev, "C04/transposition-hash", "",
                   [fen |-> FenOf(root), ma |-> ev.ma, mb |-> ev.mb, sameKey |-> Key(pa) = Key(pb)])
  /\ UNCHANGED <<gvars, rootBad, lost>>

\* UCI position command (C02, C10, C11): start position + move list as text, the driver's `fen` answer
TUciPosition ==
  /\ IsEvent("uciPosition")
  /\ LET ev == Trace[l] root == PosOfJson(ev.root) IN
       /\ Expect(FenOf(root) = ev.fen, ev, "INFRA/fen-projection", "", [fen |-> ev.fen])
       /\ Expect(Valid(root) /\ LinePlayable(root, ev.moves, 1), ev, "INFRA/uci-line", "", [fen |-> ev.fen])
       /\ LET want == Play(root, ev.moves, 1) IN
            Expect(ev.fenOut = FenOf(want), ev, "C02/uci-position", IF want.hm >= 128 /\ ev.fenOut = FenOf([want EXCEPT !.hm = Int8(want.hm)]) THEN "clock/int8-wrap" ELSE "", [want |-> FenOf(want), got |-> ev.fenOut])
  /\ UNCHANGED <<gvars, rootBad, lost>>

\* UCI: position + `go depth 1`; a root with legal moves and clock < 100 is answered `bestmove 0000`
\* exactly when it is the third occurrence (C10 through the driver)
RECURSIVE KeyLine(_, _, _, _)
KeyLine(p, ms, i, acc) == IF i > Len(ms) THEN acc
                          ELSE LET q == Make(p, DecM(ms[i])) IN KeyLine(q, ms, i + 1, Append(acc, [k |-> Key(q), h |-> ""]))
TUciRep ==
  /\ IsEvent("uciRep")
  /\ LET ev == Trace[l] root == PosOfJson(ev.root) IN
       /\ Expect(FenOf(root) = ev.fen, ev, "INFRA/fen-projection", "", [fen |-> ev.fen])
       /\ Expect(Valid(root) /\ LinePlayable(root, ev.moves, 1), ev, "INFRA/uci-line", "", [fen |-> ev.fen])
       /\ LET p == Play(root, ev.moves, 1)
              h == KeyLine(root, ev.moves, 1, <<[k |-> Key(root), h |-> ""]>>)
              woRoot == Cardinality({i \in 2..Len(h) : h[i].k = h[Len(h)].k})
              class == IF ~EpNormalised(root) /\ RepCount(h) = 3 /\ woRoot = 2 /\ h[1].k = h[Len(h)].k
                       THEN "rep/root-ep-not-capturable" ELSE ""
          IN IF HasLegal(p) /\ p.hm < 100
             THEN Expect((ev.best = "0000") = (RepCount(h) >= 3), ev, "C10/uci-third-occurrence", class,
                         [fen |-> ev.fen, moves |-> ev.moves, count |-> RepCount(h), best |-> ev.best])
             ELSE TRUE
  /\ UNCHANGED <<gvars, rootBad, lost>>

\* `position fen F moves <text>`: a move text is applied iff it denotes a pseudo-legal move of F (C05 through the GUI)
TUciMoves ==
  /\ IsEvent("uciMoves")
  /\ LET ev == Trace[l] root == PosOfJson(ev.root) want == PseudoEnc(root) got == ToSet(ev.acc) IN
       /\ Expect(FenOf(root) = ev.fen /\ Valid(root), ev, "INFRA/fen-projection", "", [fen |-> ev.fen])
       /\ Expect(got = want, ev, "C05/uci-move-acceptance", "", [fen |-> ev.fen, acceptedNotPseudoLegal |-> got \ want, pseudoLegalNotAccepted |-> want \ got])
       /\ Expect(ev.p1 = 0, ev, "C05/uci-malformed-move-accepted", "", [fen |-> ev.fen, n |-> ev.p1])
  /\ UNCHANGED <<gvars, rootBad, lost>>

\* the engine refused a FEN text: if it is the canonical text of a valid position with a clock a FEN may carry
\* (halfmove clock <= 100, fullmove >= 1) it had to be accepted (C11)
TFenRejected ==
  /\ IsEvent("fenRejected")
  /\ LET ev == Trace[l] p == PosOfJson(ev.pos) IN
       Expect(~(FenOf(p) = ev.fen /\ Valid(p) /\ p.hm \in 0..100 /\ p.fm >= 1), ev, "C11/valid-fen-rejected", "", [fen |-> ev.fen])
  /\ UNCHANGED <<gvars, rootBad, lost>>

\* the driver's perft command: leaf counts at depth 1 and 2 are the specification's
RECURSIVE PerftS(_, _)
PerftS(p, d) == IF d = 0 THEN 1 ELSE LET lg == Legal(p) IN
                   IF d = 1 THEN Cardinality(lg)
                   ELSE LET RECURSIVE Sum(_)
                            Sum(S) == IF S = {} THEN 0 ELSE LET m == CHOOSE x \in S : TRUE IN PerftS(Make(p, m), d - 1) + Sum(S \ {m})
                        IN Sum(lg)
TUciPerft ==
  /\ IsEvent("uciPerft")
  /\ LET ev == Trace[l] root == PosOfJson(ev.root) IN
       /\ Expect(FenOf(root) = ev.fen /\ Valid(root), ev, "INFRA/fen-projection", "", [fen |-> ev.fen])
       /\ Expect(ev.p1 = PerftS(root, 1), ev, "C01/uci-perft-1", "", [fen |-> ev.fen, got |-> ev.p1, want |-> PerftS(root, 1)])
       /\ Expect(ev.p2 = PerftS(root, 2), ev, "C01/uci-perft-2", "", [fen |-> ev.fen, got |-> ev.p2, want |-> PerftS(root, 2)])
  /\ UNCHANGED <<gvars, rootBad, lost>>

\* the search has returned: every make of the search must have been undone (only the game prefix is left)
TBalanced ==
  /\ IsEvent("balanced")
  /\ Expect(Len(stack) = Trace[l].base, Trace[l], "C03/make-without-undo-when-the-search-returned", "", [left |-> Len(stack) - Trace[l].base, depth |-> Trace[l].depth, hard |-> Trace[l].hard])
  /\ UNCHANGED <<gvars, rootBad, lost>>

\* the engine panicked during a valid call sequence (recorded by the recorder's recover handler)
\* every Zobrist key, derived from hashes of positions that differ in one feature: different features, different keys
\* (what lets GameModel.tla treat the hash as the SET of features of the position), none of them zero
\* reported under the property whose check recorded it (C04: the hash tells positions apart; C10: repetitions are
\* counted by comparing hashes)
ZRule == (IF "PROP" \in DOMAIN IOEnv THEN IOEnv.PROP ELSE "C04") \o "/zobrist-keys-collide"
TZKeys ==
  /\ IsEvent("zkeys")
  /\ LET ev == Trace[l]
         n == Len(ev.zkeys)
         dup == {i \in 1..n : \E j \in 1..n : j < i /\ ev.zkeys[j] = ev.zkeys[i]}
     IN /\ Expect(dup = {}, ev, ZRule, "", [pairs |-> {<<ev.znames[CHOOSE j \in 1..n : j < i /\ ev.zkeys[j] = ev.zkeys[i]], ev.znames[i]>> : i \in dup}])
        /\ Expect(\A i \in 1..n : ev.zkeys[i] # "0000000000000000", ev, ZRule, "", [zero |-> {ev.znames[i] : i \in {k \in 1..n : ev.zkeys[k] = "0000000000000000"}}])
  /\ UNCHANGED <<gvars, rootBad, lost>>

TPanic ==
  /\ IsEvent("panic")
  /\ LET ev == Trace[l] IN Report(ev, IF ev.engine THEN "PANIC/engine" ELSE "INFRA/recorder-panic", "", [msg |-> ev.msg, root |-> ev.fen])
  /\ UNCHANGED <<gvars, rootBad, lost>>

TInit == GInit /\ l = 1 /\ rootBad = FALSE /\ lost = FALSE
Judged == TLoad \/ TMake \/ TNullMake \/ TUndo("undo") \/ TUndo("nullundo") \/ TTransp \/ TUciPosition \/ TUciRep \/ TPanic \/ TBalanced \/ TUciPerft \/ TUciMoves \/ TFenRejected \/ TZKeys
Skip == /\ lost /\ l <= Len(Trace) /\ Trace[l].ev # "load" /\ l' = l + 1 /\ UNCHANGED <<gvars, rootBad, lost>>
TNext == Skip \/ ((~lost \/ (l <= Len(Trace) /\ Trace[l].ev = "load")) /\ Judged)

\* printed once at the end: how far the trace was consumed
Done == PrintT("DONE " \o ToString(TLCGet("stats").diameter - 1) \o " " \o ToString(Len(Trace)))
=============================================================================
