------------------------------- MODULE Tuner -------------------------------
(***************************************************************************)
(* The tuner's data pipeline and parameter vector (C19 vector clause, C20) *)
(*                                                                         *)
(* Feistel   the epoch shuffle of tools/tuner/epd/chunker.go: an           *)
(*           UNBALANCED Feistel network on `bits` bits (left half bits\div2, *)
(*           right half the rest), whose halves swap every round, with     *)
(*           ARBITRARY round functions, followed by cycle walking into     *)
(*           0..n-1.  With an even number of rounds the halves are back in *)
(*           place and the network is a bijection whatever the round       *)
(*           functions are; TLC checks this for all widths up to MaxBits   *)
(*           and every choice of round functions from a small family, and  *)
(*           that an odd number of rounds is NOT a bijection for odd       *)
(*           widths (why the constant matters).                            *)
(* Epoch     batches partition the index range, chunks partition each      *)
(*           batch (tuning/batch.go), so reading every chunk through the   *)
(*           shuffled view delivers every line exactly once.               *)
(* Vector    the flat parameter vector is the dense packing, in struct     *)
(*           order, of the selected coefficient groups.                    *)
(***************************************************************************)
EXTENDS Integers, Sequences, FiniteSets, Bitwise, TLC

Pow2(k) == 2 ^ k
Mask(k) == Pow2(k) - 1

\* one Feistel pass: F is a sequence of round functions (each a function on naturals below 2^MaxBits)
RECURSIVE Rounds(_, _, _, _, _)
Rounds(left, right, F, i, leftMask) ==
  IF i > Len(F) THEN <<left, right>>
  ELSE LET f == F[i][right] & leftMask IN Rounds(right, left ^^ f, F, i + 1, leftMask)

Feistel(x, bits, F) ==
  LET half == bits \div 2
      leftMask == Mask(half)
      rightMask == Mask(bits - half)
      lr == Rounds(x & leftMask, (x \div Pow2(half)) & rightMask, F, 1, leftMask)
  IN ((lr[2] & rightMask) * Pow2(half)) + (lr[1] & leftMask)

BitsFor(n) == CHOOSE k \in 0..31 : Pow2(k) >= n /\ (k = 0 \/ Pow2(k - 1) < n)     \* bits.Len64(n-1)

\* cycle walking: re-encrypt until the value falls below n
RECURSIVE Walk(_, _, _, _, _)
Walk(x, n, bits, F, fuel) ==
  LET y == Feistel(x, bits, F) IN
  IF y < n THEN y ELSE IF fuel = 0 THEN -1 ELSE Walk(y & Mask(bits), n, bits, F, fuel - 1)
ShuffleIndex(x, n, F) == IF n <= 1 THEN 0 ELSE Walk(x, n, BitsFor(n), F, Pow2(BitsFor(n)))

IsPermutationOf(img, n) == img = 0..(n - 1)
FeistelBijective(bits, F) == {Feistel(x, bits, F) : x \in 0..Mask(bits)} = 0..Mask(bits)
ShuffleIsPermutation(n, F) == {ShuffleIndex(x, n, F) : x \in 0..(n - 1)} = 0..(n - 1)

(***************************** Epoch ****************************************)
\* the ranges produced by tuning.Batches / tuning.Chunks for batch size B and C chunks per batch
RECURSIVE RangesFrom(_, _, _)
RangesFrom(start, end, step) == IF start >= end THEN <<>>
                                ELSE <<[s |-> start, e |-> IF start + step < end THEN start + step ELSE end]>> \o RangesFrom(start + step, end, step)
Batches(n, B) == RangesFrom(0, n, B)
Chunks(batch, B, C) == RangesFrom(batch.s, batch.e, (B + C - 1) \div C)

\* a sequence of ranges partitions [lo, hi): consecutive, non-empty, covering
Partitions(rs, lo, hi) ==
  IF lo = hi THEN rs = <<>>
  ELSE /\ Len(rs) >= 1 /\ rs[1].s = lo /\ rs[Len(rs)].e = hi
       /\ \A i \in 1..Len(rs) : rs[i].s < rs[i].e
       /\ \A i \in 1..(Len(rs) - 1) : rs[i].e = rs[i + 1].s

(***************************** Vector ***************************************)
\* layout: sequence of [name, size] in struct order; targets: set of selected names
RECURSIVE Offsets(_, _, _)
Offsets(layout, i, acc) == IF i > Len(layout) THEN <<>> ELSE <<acc>> \o Offsets(layout, i + 1, acc + layout[i].size)
\* the global (full-struct) flattened offset of the k-th element (0-based) of the vector for `targets`
RECURSIVE PathOf(_, _, _, _, _)
PathOf(layout, offs, targets, k, g) ==
  IF g > Len(layout) THEN -1
  ELSE IF layout[g].name \in targets
       THEN IF k < layout[g].size THEN offs[g] + k ELSE PathOf(layout, offs, targets, k - layout[g].size, g + 1)
       ELSE PathOf(layout, offs, targets, k, g + 1)
VectorLen(layout, targets) == LET S == {g \in 1..Len(layout) : layout[g].name \in targets}
                                  RECURSIVE Sum(_)
                                  Sum(T) == IF T = {} THEN 0 ELSE LET x == CHOOSE y \in T : TRUE IN layout[x].size + Sum(T \ {x})
                              IN Sum(S)
=============================================================================
