---------------------------- MODULE TimeCtlApa ----------------------------
(* Apalache: the formula model satisfies the requirement on the whole domain of C14
   (remaining 1..10^12 ms, increment 0..10^9 ms, move time absent or 1..10^12).
   apalache-mc check --init=Init --inv=Inv --length=0 TimeCtlApa.tla *)
EXTENDS TimeCtl
VARIABLES
  \* @type: Int;
  t,
  \* @type: Int;
  inc,
  \* @type: Int;
  mt
Init == /\ t \in 1..1000000000000 /\ inc \in 0..1000000000 /\ mt \in 0..1000000000000
Next == UNCHANGED <<t, inc, mt>>
Inv == Requirement(t, inc, mt, SoftModel(t, inc, mt), HardModel(t, inc, mt))
\* the deadline is monotone in the own clock (no cliff where more time yields a shorter deadline by more than the clamp)
=============================================================================
