------------------------------ MODULE PickerMC ------------------------------
EXTENDS Picker
\* weights drawn from the documented bands (good capture, bad capture; quiet band incl. both ends)
NoisyBand == {7168, 7170, 7338, -8192, -8100}
QuietBandW == {-3072, -1, 0, 3072}
\* NECESSITY: were a quiet weight allowed to reach the sentinel, the move would never be yielded
QuietBroken == {-16384, 0}
=============================================================================
